"""C09 — overload degrades by omission only."""
import itertools
import json
import os

import common as C
import oracles as O
import seqcheck
import seqrun


# ------------------------------------------------------------------ channel tier

def gen_spsc(r, maxlen):
    cap = 1 + r.below(r.pick([1, 2, 3, 8]))
    ops = ["new %d" % cap]
    v = 0
    alive = True
    for _ in range(3 + r.below(maxlen)):
        k = r.below(10)
        plan = ",".join(str(r.below(3)) for _ in range(r.below(5))) or "_"
        if not alive:
            ops.append("pop")
            continue
        if k < 3:
            v += 1
            ops.append("send %d %s" % (v, plan))
        elif k < 6:
            v += 1
            ops.append("force %d %s" % (1000 + v, plan))
        elif k < 9:
            ops.append("pop")
        elif r.chance(1, 3):
            ops.append("drop %s" % plan)
            alive = False
    ops += ["pop"] * (cap + 3)
    return ops


def exhaustive_spsc(maxlen):
    """every sequence over {send, force, pop, force-with-pop-before-each-push} up to maxlen, capacities 1-2"""
    alph = ["S", "F", "P", "G"]
    for cap in (1, 2):
        for n in range(1, maxlen + 1):
            for seq in itertools.product(alph, repeat=n):
                ops, v = ["new %d" % cap], 0
                for a in seq:
                    v += 1
                    ops.append({"S": "send %d _" % v, "F": "force %d _" % (1000 + v), "P": "pop", "G": "force %d 1,1,1,1" % (1000 + v)}[a])
                ops += ["drop _"] + ["pop"] * 4
                yield ops


def spsc_oracle(ops, outs):
    """FIFO / exactly once / forced never rejected, independent of the model"""
    accepted, got, alive = [], [], True
    for op, o in zip(ops, outs):
        w = op.split()
        if o == "panic":
            return "call %r panicked" % op
        if w[0] in ("send", "force", "drop"):
            st, pops = o.split(" pops=")
            if pops != "-":
                got += [int(x) for x in pops.split(",")]
            if w[0] == "force" and st != "ok":
                return "force_send(%s) was rejected" % w[1]
            if w[0] != "drop" and st == "ok":
                accepted.append(int(w[1]))
            if w[0] == "drop":
                alive = False
        elif w[0] == "pop" and o.startswith("some "):
            got.append(int(o.split()[1]))
        if alive and got != accepted[:len(got)]:
            return "consumer received %s; accepted in order were %s" % (got, accepted)
    it = iter(accepted)
    if not all(any(g == a for a in it) for g in got) or len(set(got)) != len(got):
        return "consumer received %s, not an in-order selection of the accepted %s" % (got, accepted)
    return None


def run_spsc(exe, mode, cases):
    data = "mode %s\n" % mode
    for i, c in enumerate(cases):
        data += "case %d\n" % i + "\n".join(c) + "\n"
    import subprocess
    p = subprocess.run([exe], input=data, capture_output=True, text=True, timeout=3600)
    out, cur = [], None
    for l in p.stdout.splitlines():
        if l == "case":
            cur = []
            out.append(cur)
        elif cur is not None:
            cur.append(l)
    while len(out) < len(cases):
        out.append([])
    return out


# ------------------------------------------------------------------ overload scenarios on the real 10240-slot queue

CAP = 10240


def sc_cancel_on_full(cancelable):
    # a child finishes while there is room (its span set is in the collector); then the queue fills;
    # cancel() and the root's drop are issued on the full queue: both signals are parked and must arrive,
    # in order, once the queue has drained; span sets submitted during the episode may be missing
    p = ["0 spawn", "1 spawn", "0 setReporter %d" % cancelable, "0 touch", "1 touch",
         "0 root r 72 1 0 1", "0 child1 b 62 r", "0 drop b", "0 cycle", "0 spam %d" % CAP, "0 child1 c 63 r", "0 drop c", "0 cancel r", "0 drop r",
         "0 cycle", "0 root z 7a 2 0 1", "0 child1 y 79 z", "0 drop y", "0 drop z", "0 cycle", "0 cycle", "0 stats"]
    return p


def sc_finish_on_full():
    # commit parked while full: the trace must still be delivered (root span set may be missing, the signal not)
    return ["0 spawn", "0 setReporter 1", "0 touch", "0 root r 72 1 0 1", "0 child1 c 63 r", "0 drop c", "0 spam %d" % (CAP - 2),
            "0 drop r", "0 cycle", "0 root z 7a 2 0 1", "0 drop z", "0 cycle", "0 cycle", "0 stats"]


def sc_start_lost():
    # a trace started while the queue is full may be missing entirely (cancelable) — but later traces are complete
    return ["0 spawn", "0 setReporter 1", "0 touch", "0 spam %d" % CAP, "0 root r 72 1 0 1", "0 child1 c 63 r", "0 drop c", "0 drop r",
            "0 cycle", "0 cycle", "0 root z 7a 2 0 1", "0 child1 y 79 z", "0 scope y", "0 localEnter 6c", "0 close", "0 close", "0 drop y", "0 drop z", "0 cycle", "0 stats"]


def sc_start_on_full_default(extra):
    """default configuration: a trace is started while the queue is exactly full (extra = 0) or full with signals parked
    (extra > 0): the start command is lost, but span sets of that trace submitted after the queue has drained — a child,
    the root itself — are still delivered (only what is submitted *while* the queue is full may be missing)"""
    return ["0 spawn", "0 setReporter 0", "0 touch", "0 spam %d" % (10240 + extra), "0 root r 72 1 0 1", "0 cycle", "0 cycle",
            "0 child1 c 63 r", "0 scope c", "0 localEnter 6c", "0 close", "0 close", "0 drop c", "0 drop r", "0 cycle", "0 cycle", "0 stats"]


def sc_big_trace(cancelable, n=9000):
    """one thread finishes n children of the root and exits / hands back; the root is then finished on another
    thread; one cycle: every child must be in that cycle's report (no per-cycle cap on a queue's backlog)"""
    p = ["0 spawn", "1 spawn", "0 setReporter %d" % cancelable, "0 root r 72 1 0 1"]
    for i in range(n):
        p += ["1 child1 c%d 63 r" % i, "1 drop c%d" % i]
    p += ["0 drop r", "0 cycle", "0 cycle", "0 stats"]
    return p


def sc_recovery(cancelable):
    """overload episode (finish signal parked on a full queue), one cycle, then ordinary traffic: everything
    submitted after the queue has drained must be delivered"""
    return ["0 spawn", "0 setReporter %d" % cancelable, "0 touch", "0 root r 72 1 0 1", "0 spam %d" % CAP, "0 drop r", "0 cycle",
            "0 root z 7a 2 0 1", "0 child1 y 79 z", "0 scope y", "0 localEnter 6c", "0 close", "0 close", "0 drop y", "0 drop z", "0 cycle", "0 cycle", "0 stats"]


def sc_recovery_adapter(cancelable, kind="inSpan"):
    """overload episode (a finish signal stays parked on the thread), one cycle drains the queue, then a future / stream / sink
    adapter runs on that thread: its span and what is recorded during its calls are submitted while the queue has room again
    and must be delivered"""
    call, res = {"inSpan": ("poll", "ready"), "stream": ("poll_next", "none"), "sink": ("poll_close", "ready")}[kind]
    return ["0 spawn", "0 setReporter %d" % cancelable, "0 touch", "0 root q 71 1 0 1", "0 spam %d" % CAP, "0 drop q", "0 cycle",
            "0 root r 72 2 0 1", "0 adNew f %s r" % kind, "0 adPoll f %s" % call, "0 localEnter 6c", "0 close", "0 adEnd f %s" % res,
            "0 cycle", "0 cycle", "0 adDrop f", "0 stats"]


def sc_cancel_split(k):
    """cancel() and the root's finish are parked on a full queue (in that order); a further plain submission fails
    while both are parked; after the queue has drained the parked signals are replayed by the next send, and a
    collector cycle falls before the k-th ring push of that send.  The cancel must still reach the collector no
    later than the finish: nothing of the trace may be reported.  (cycleAtPush / inlineReport: implementation only)"""
    return ["0 spawn", "0 setReporter 1", "0 touch", "0 root r 72 1 0 1", "0 child1 b 62 r", "0 drop b", "0 child1 d 64 r", "0 cycle",
            "0 spam %d" % CAP, "0 cancel r", "0 drop r", "0 drop d", "0 cycle",
            "0 cycleAtPush %d" % k, "0 root z 7a 2 0 1", "0 inlineReport", "0 child1 y 79 z", "0 drop y", "0 drop z", "0 cycle", "0 cycle", "0 stats"]


PARKED_VARIANTS = ("plain", "second-pass", "exit", "default", "other-commit-first", "two", "start-on-full")


def sc_cancel_parked_elsewhere(variant):
    """D21: cancel() on a thread whose queue is full (the signal is parked there), the root finishes on ANOTHER thread.
    variant 'plain': whole cycles; 'second-pass': the root finishes while a stepped cycle is in its second pass, so the
    commit is deferred to the next cycle; 'exit': the cancelling thread exits with the signal still parked (it is lost,
    D3) before the root finishes; 'default': not cancelable — cancel() is a no-op and the trace is delivered."""
    cancelable = 0 if variant == "default" else 1
    p = ["0 spawn", "1 spawn", "0 setReporter %d" % cancelable, "0 touch", "1 touch",
         "0 root r 72 1 0 1", "0 child1 c 63 r", "0 drop c", "0 spam %d" % (CAP + 60), "0 cancel r"]
    if variant == "start-on-full":
        # the full queue is the creator's at root creation (the start command does not fit); cancel() comes from another
        # thread and is consumed by a cycle before the creator sends again and finishes the root
        return ["0 spawn", "1 spawn", "0 setReporter 1", "0 touch", "1 touch", "0 spam %d" % CAP, "0 root r 72 1 0 1", "1 cancel r", "0 cycle",
                "0 child1 c 63 r", "0 drop c", "0 drop r", "0 cycle", "0 cycle", "0 root z 7a 3 0 1", "0 drop z", "0 cycle", "0 stats"]
    if variant == "other-commit-first":
        # a cycle handles the commit of an unrelated trace (and consumes nothing of the note) before the root finishes
        p += ["1 root q 71 2 0 1", "1 drop q", "0 cycle", "1 drop r", "0 cycle"]
    elif variant == "two":
        # two cancelled traces are noted; their roots finish in different cycles
        p = p[:-2] + ["0 root q 71 2 0 1", "0 spam %d" % (CAP + 60), "0 cancel r", "0 cancel q", "1 drop q", "0 cycle", "1 drop r", "0 cycle"]
    elif variant == "second-pass":
        p += ["0 cycBegin", "0 cycStep", "0 cycStep", "0 cycStep", "0 cycStep", "1 drop r", "0 cycStep", "0 cycStep", "0 cycStep", "0 cycle"]
    elif variant == "exit":
        p += ["0 exit", "1 drop r", "1 cycle"]
        return p + ["1 cycle", "1 root z 7a 3 0 1", "1 drop z", "1 cycle", "1 stats"]
    else:
        p += ["1 drop r", "0 cycle"]
    return p + ["0 cycle", "0 root z 7a 3 0 1", "0 drop z", "0 cycle", "0 stats"]


def sc_start_parked(cancelable):
    """a trace is started on a thread whose queue is full (the start may be lost, C09) and its root is finished on
    another thread; whatever happens to the trace, once everything has been consumed the collector retains nothing"""
    return ["0 spawn", "1 spawn", "0 setReporter %d" % cancelable, "0 touch", "1 touch", "1 spam %d" % CAP,
            "1 root r 72 1 0 1", "0 drop r", "0 cycle", "1 root z 7a 2 0 1", "1 drop z", "0 cycle", "0 cycle", "0 stats"]


def run_scenarios(v, scen, with_model=True, jobs=2):
    """runs directed scenarios on the implementation (and the model), applies `check_scenarios`"""
    import seqrun
    tags = list(scen)
    s_impl = seqrun.run_impl([scen[t] for t in tags], jobs=jobs)
    for tag, bad in check_scenarios({t: (scen[t], s_impl[i]) for i, t in enumerate(tags)})[:2]:
        prog = scen[tag] if len(scen[tag]) < 80 else scen[tag][:60] + ["…"] + scen[tag][-8:]
        v.violation(bad, {"program": prog, "scenario": tag, "stream": "wild", "implementation_transcript_tail": [seqrun.strip_times(x)[:300] for x in s_impl[tags.index(tag)][-8:]]})
    if with_model and not v.violations:
        s_model = seqrun.run_model([scen[t] for t in tags])
        for i, t in enumerate(tags):
            k = seqrun.first_mismatch(s_impl[i], s_model[i]) if s_model else None
            if k is not None:
                v.violation("scenario %s: model/implementation correspondence broken at %r" % (t, scen[t][k] if k < len(scen[t]) else "<end>"),
                            {"scenario": t, "program": scen[t][:80], "line": k}, found_input=False, tag="corr-scen")
                break
    v.coverage.setdefault("scenarios", [])
    v.coverage["scenarios"] += tags


def names_in(tr):
    return [r["name"] for _, r in tr.delivered()]


def check_scenarios(impl_by_tag):
    fails = []
    for tag, (lines, outs) in impl_by_tag.items():
        tr = O.Transcript(lines, outs)
        f = O.o_no_panic(None, tr)
        n = names_in(tr)
        if tag.startswith("cancel-on-full-1"):
            if "r" in n or "c" in n or "b" in n:
                f.append("records %s of the cancelled trace were delivered although cancel() was called (full queue)" % [x for x in n if x in "rcb"])
            if sorted(x for x in n if x in "zy") != ["y", "z"]:
                f.append("the trace started after the queue had drained was not delivered completely: %s" % n)
        if tag.startswith("cancel-on-full-0"):
            if n.count("b") != 1:
                f.append("default configuration: the child finished before the episode must be delivered exactly once: %s" % n)
            if sorted(x for x in n if x in "zy") != ["y", "z"]:
                f.append("default configuration: trace started after the episode not complete: %s" % n)
        if tag.startswith("cancel-split"):
            bad = [x for x in n if x in ("r", "b", "c", "d")]
            if bad:
                f.append("records %s of the cancelled trace were delivered: the parked cancel reached the collector after the parked finish" % bad)
            if sorted(x for x in n if x in "zy") != ["y", "z"]:
                f.append("the trace started after the queue had drained was not delivered completely: %s" % n)
        if tag.startswith("cancel-parked-") and not tag.endswith("default"):
            bad = [x for x in n if x in ("r", "c")] + ([x for x in n if x == "q"] if tag.endswith("two") else [])
            if bad:
                f.append("records %s of the cancelled trace were delivered: cancel() was called on a thread whose queue was full, "
                         "the root finished on another thread and its commit overtook the parked cancel" % bad)
            if n.count("z") != 1:
                f.append("the trace started afterwards was not delivered exactly once: %s" % n)
        if tag == "cancel-parked-default":
            if n.count("c") != 1 or n.count("z") != 1:
                f.append("default configuration: cancel() is a no-op; the child finished before the episode and the later trace "
                         "must be delivered exactly once: %s" % n)
        if tag.startswith("start-parked"):
            if sorted(x for x in n if x == "z") != ["z"]:
                f.append("the trace started after the queue had drained was not delivered: %s" % n)
        if tag.startswith("finish-on-full"):
            if n.count("c") != 1:
                f.append("child finished before the episode must be delivered with its trace once the parked commit arrives: %s" % n)
            if n.count("z") != 1:
                f.append("later trace incomplete: %s" % n)
        if tag.startswith("big-trace"):
            first = tr.reports[0][1] if tr.reports else []
            want = sum(1 for l in lines if " child1 " in l) + 1
            later = sum(len(rs) for _, rs in tr.reports[1:])
            if len(first) != want or later:
                f.append("%d of the %d spans of the trace were delivered in the cycle after the root finished, %d later" % (len(first), want, later))
        if tag.startswith("recovery-adapter"):
            if sorted(x for x in n if x in ("r", "l")) != ["l", "r"]:
                f.append("the adapter ran after the queue had drained (only a finish signal was still parked): its span 'r' and the local span 'l' "
                         "recorded during its call must be delivered: delivered %s" % n)
        elif tag.startswith("recovery"):
            if sorted(x for x in n if x in ("z", "y", "l")) != ["l", "y", "z"]:
                f.append("spans submitted after the queue had drained are missing: delivered %s" % n)
        if tag.startswith("start-on-full-default"):
            if sorted(x for x in n if x in ("r", "c", "l")) != ["c", "l", "r"]:
                f.append("default configuration: the trace was started while the queue was full; the span sets submitted after it had drained "
                         "(child 'c' with its local span 'l', root 'r') must still be delivered: delivered %s" % n)
        if tag.startswith("start-lost"):
            if sorted(x for x in n if x in ("z", "y", "l")) != ["l", "y", "z"]:
                f.append("trace started after the queue drained must be complete: %s" % n)
        st = tr.stats[max(tr.stats)] if tr.stats else None
        if st and st[0]:
            f.append("collector retains %s after all traces finished" % (st[0],))
        if tr.stats and tr.parked.get(max(tr.stats), 0):
            f.append("collector keeps %d parked-cancel note(s) after all traces finished" % tr.parked[max(tr.stats)])
        for x in f:
            fails.append((tag, x))
    return fails


def overload_stream(v, r, tier, n_quick, n_thorough, cancelable, quiet=False):
    """random programs over the span API in which queues are filled to within a few slots of their capacity (or beyond) before
    and between the operations; the implementation's transcript is judged by the omission-only oracle and compared with the
    model's.  cancelable: True / False / None (alternating).  Returns the coverage entry."""
    import proggen
    import seqcheck
    progs, fail, mism, hist = [], [], [], {}
    for i in range(n_quick if tier == "quick" else n_thorough):
        g = proggen.make(r.fork(), "tree", {"overload": True, "threads": 1 + i % 3, "ops": 12 + r.below(30), "cancelable": (i % 2 == 0) if cancelable is None else cancelable,
                                            "cycle_density": 1 + i % 3, "exits": False, "late_reporter": False, "no_reporter": False, "multi": i % 4 == 0})
        progs.append(g.lines)
    impl = seqrun.run_impl(progs)
    model = seqrun.run_model(progs)
    for ci, (lines, outs) in enumerate(zip(progs, impl)):
        try:
            f, tr = seqcheck.eval_case(lines, outs, ["no_panic", "omission_only"])
        except Exception as ex:
            f = [("transcript", "unparsable implementation transcript: %s" % ex)]
        for nm, msg in f:
            fail.append((ci, msg))
        for o in outs:
            if o.startswith("rep "):
                hist["reports"] = hist.get("reports", 0) + 1
                hist["records"] = hist.get("records", 0) + (0 if o.strip() == "rep -" else len(o.split()) - 1)
        hist["cancels"] = hist.get("cancels", 0) + sum(1 for l in lines if l.split()[1] == "cancel")
        if model is not None:
            k = seqrun.first_mismatch(outs, model[ci])
            if k is not None:
                mism.append((ci, k))
    for ci, msg in fail[:2]:
        v.violation(msg, {"program": progs[ci], "stream": "overload", "implementation_transcript": [seqrun.strip_times(x)[:300] for x in impl[ci]][-30:]})
    if not fail and mism and not quiet and not v.violations:
        ci, k = mism[0]
        v.violation("overload program: model/implementation correspondence broken at %r: implementation %r, model %r"
                    % (progs[ci][k] if k < len(progs[ci]) else "<end>", seqrun.strip_times(impl[ci][k])[:200] if k < len(impl[ci]) else None,
                       seqrun.strip_times(model[ci][k])[:200] if k < len(model[ci]) else None),
                    {"program": progs[ci], "line": k, "mismatching_programs": len(mism)}, found_input=False, tag="corr-overload")
    return {"programs": len(progs), "oracle_failures": len(fail), "correspondence_mismatches": len(mism), **hist,
            "rule": "random programs over the span API (1-3 threads) in which queues are filled to within a few slots of their capacity (or beyond) before and between "
                    "the operations; oracle: nothing delivered twice, nothing of a cancelled / unfinished trace, no panic; every program also runs through the Lean model (transcripts equal)"}


def run(v, tier, seed, replay):
    lean = C.lean_check(["C09", "E2E", "Fifo"], tier)
    ok, err = C.cargo_build("fh-core", ["fh-spsc", "fh-seq"])
    r = C.Rng(seed * 1000003 + 9)
    cases = []
    if replay:
        rp = json.load(open(replay))
        cases = [rp["ops"]]
    else:
        corpus = [["new 1", "send 10 _", "force 20 _", "force 30 _", "force 40 1,1,1", "pop", "pop", "pop", "drop _", "pop"]]
        cases = corpus + list(exhaustive_spsc(4 if tier == "quick" else 6))
        cases += [gen_spsc(r.fork(), 30 if tier == "quick" else 80) for _ in range(1500 if tier == "quick" else 60000)]
    impl = run_spsc(C.bin_path("fh-spsc"), "spsc", cases) if ok else None
    model = run_spsc(C.FMODEL, "spsc", cases) if os.path.exists(C.FMODEL) else None
    fails, mism, nontriv = [], [], set()
    if impl is not None:
        for ci, (ops, o) in enumerate(zip(cases, impl)):
            bad = spsc_oracle(ops, o) if len(o) == len(ops) else "harness died after %d of %d operations" % (len(o), len(ops))
            if bad:
                fails.append((ci, bad))
            if any("full" in x for x in o) or any(x.startswith("ok pops=") and not x.endswith("-") for x in o):
                nontriv.add(" ".join(ops))
            if model is not None and model[ci] != o:
                i = next((k for k, (a, b) in enumerate(zip(o, model[ci])) if a != b), min(len(o), len(model[ci])))
                mism.append((ci, i))
    # overload on the real queue (seq tier)
    scen = {}
    if not replay:
        scen = {"cancel-on-full-1": sc_cancel_on_full(1), "cancel-on-full-0": sc_cancel_on_full(0), "finish-on-full": sc_finish_on_full(), "start-lost": sc_start_lost(),
                "start-on-full-default-0": sc_start_on_full_default(0), "start-on-full-default-60": sc_start_on_full_default(60)}
    tags = list(scen)
    s_impl = seqrun.run_impl([scen[t] for t in tags], jobs=4) if ok and tags else []
    s_model = seqrun.run_model([scen[t] for t in tags]) if tags else []
    s_fail = check_scenarios({t: (scen[t], s_impl[i]) for i, t in enumerate(tags)}) if s_impl else []
    s_mism = [(t, seqrun.first_mismatch(s_impl[i], s_model[i])) for i, t in enumerate(tags) if s_model and seqrun.first_mismatch(s_impl[i], s_model[i]) is not None] if s_impl else []

    # random programs over the span API whose threads work on (nearly) full queues: omission only, and the model agrees
    o_cov = overload_stream(v, r, tier, 24, 1500, None, quiet=bool(fails or s_fail)) if (not replay and ok) else {"programs": 0}

    # a cancel parked on its thread while the root finishes elsewhere (D21): the signal is not reordered against the commit
    if not replay and ok and not v.violations:
        run_scenarios(v, {"cancel-parked-%s" % k: sc_cancel_parked_elsewhere(k) for k in PARKED_VARIANTS}, with_model=True, jobs=6)

    for ci, bad in fails[:3]:
        v.violation(bad, {"ops": cases[ci], "implementation": impl[ci], "model": model[ci] if model else None, "how_to_replay": "./check C09 --replay <this file>"})
    for tag, bad in s_fail[:2]:
        v.violation(bad, {"program": scen[tag], "scenario": tag, "implementation_transcript": [seqrun.strip_times(x)[:300] for x in s_impl[tags.index(tag)]]})
    if not fails and not s_fail:
        if not ok:
            v.violation("harness does not build against /repo: " + err, {"stderr": err}, found_input=False, tag="build")
        elif mism:
            ci, i = mism[0]
            v.violation("channel model/implementation correspondence broken at %r: implementation %r, model %r; FIFO oracle found no failure in %d sequences"
                        % (cases[ci][i] if i < len(cases[ci]) else "<end>", impl[ci][i] if i < len(impl[ci]) else None, model[ci][i] if i < len(model[ci]) else None, len(cases)),
                        {"correspondence": "fh-spsc vs fmodel spsc", "ops": cases[ci], "implementation": impl[ci], "model": model[ci], "mismatching": len(mism)}, found_input=False, tag="corr")
        elif s_mism:
            t, i = s_mism[0]
            v.violation("overload scenario %s: model/implementation correspondence broken at line %d" % (t, i), {"program": scen[t], "line": i}, found_input=False, tag="corr-seq")
        elif lean["failures"]:
            v.violation("proof obligation no longer checks: " + "; ".join(lean["failures"])[:400], {"theorem_or_obligation": lean["failures"]}, found_input=False, tag="proof")
    v.coverage = {
        "obligations": lean["obligations"], "discharged": lean["discharged"] if not lean["failures"] else min(lean["discharged"], lean["obligations"] - 1),
        "checker_cmd": "cd lean && lake build FastraceModel.Props.C09 FastraceModel.Props.E2E FastraceModel.Props.Fifo FastraceModel.Props.ParamsOk && lake env lean <#print axioms>" + (" && lake env leanchecker FastraceModel.Props.C09" if tier == "thorough" else ""),
        "trusted_base": C.TRUSTED_BASE + ["rtrb ring buffer: FIFO with the stated capacity, push fails iff full (compared on every sequence, not proved)"],
        "theorems": lean["theorems"], "axioms": lean["axioms"],
        "evaluations": len(cases) + len(tags), "distinct_nontrivial": len(nontriv),
        "rule": "channel tier: the real spsc::bounded(k), k=1..8: every op sequence over {send, force_send, pop, force_send with a pop before each push} up to length %d for k=1,2 (exhaustive), plus random sequences with "
                "random pop placements inside calls and sender drop; overload tier: four scenarios that really fill the 10240-slot queue (cancel/finish/start while full, recovery). non-trivial = distinct sequence with a rejection or a pop inside a call" % (4 if tier == "quick" else 6),
        "samples": [cases[0], cases[len(cases) // 2][:20], cases[-1][:20]] + ([scen[tags[0]]] if tags else []),
        "traces_validated_against_impl": (len(cases) if impl is not None else 0) + len(s_impl),
        "exhaustive": False, "correspondence_mismatches": len(mism) + len(s_mism), "oracle_failures": len(fails) + len(s_fail),
        "overload_scenarios": tags,
        "overload_programs": o_cov,
    }
    v.assumptions = ["Sender::drop at thread exit may lose parked commands when the ring is full (open finding D3; C09 limits itself to 'while the thread lives')",
                     "local limits (10240 spans per scope, 4096 scopes) are exercised in C07's focus programs and proved in C07_queue_at_limit / C07_scope_at_limit"]
