"""C08 — the collector keeps state only for unfinished traces and live threads."""
import seqcheck
from props import c09


def knobs(r, i):
    return {"threads": 1 + i % 3, "exits": True, "cycle_density": 1 + i % 3, "cancelable": i % 2 == 0, "ops": 30 + r.below(120), "stepped": i % 4 == 1}


def inherit(c):
    """an event is attached (through the handle) to a child that outlives its root; the root finishes and a cycle runs; then
    another trace is in flight: nothing of the first trace's parked attachments may show up under the second"""
    return ["0 spawn", "0 setReporter %d" % c, "0 root r 72 1 0 1", "0 child1 k 6b r", "0 addEvent k 65 none", "0 addProps k 0:6b=76", "0 drop r", "0 cycle", "0 stats",
            "0 root z 7a 2 0 1", "0 cycle", "0 stats", "0 root y 79 3 0 1", "0 cycle", "0 stats", "0 drop k", "0 drop z", "0 drop y", "0 cycle", "0 cycle", "0 stats"]


def extra(r):
    return [("focus/parked-attachments-not-inherited-%d" % c, inherit(c), ["no_panic", "retained"]) for c in (0, 1)]


def run(v, tier, seed, replay):
    cases, impl, model = seqcheck.run(v, tier, seed, replay, "C08", ["C08", "Parked"], tree_oracles=["no_panic", "retained", "exactly_once"], wild_oracles=["no_panic"], knobs=knobs, extra_cases=extra,
                 n_quick=(1800, 450), n_thorough=(60000, 10000),
                 nontrivial=lambda lines, tr: bool(tr.stats),
                 assumptions=["a start drained in a later cycle than its commit/drop leaves a permanent entry (open finding D4, C08 example); not reachable at the harness' granularity of whole cycles"])
    if not replay and not v.violations:
        c09.run_scenarios(v, {"start-parked-%d" % c: c09.sc_start_parked(c) for c in (0, 1)})
    # D21 / C08f: a trace whose cancel was parked on a full queue and whose root finished elsewhere must not be retained
    # (in the default configuration the cancel is a no-op, but the commit still has to release the trace)
    if not replay and not v.violations:
        c09.run_scenarios(v, {"cancel-parked-%s" % k: c09.sc_cancel_parked_elsewhere(k) for k in c09.PARKED_VARIANTS}, jobs=6)
