"""C07 — tracing calls never panic, block or deadlock the host."""
import known as K
import seqcheck


def deep_nesting(n):
    p = ["0 spawn", "0 setReporter 0", "0 root r 72 1 0 1"]
    p += ["0 scope r"] * n + ["0 ctxLocal", "0 localEnter 6c", "0 close"] + ["0 close"] * n
    return p + ["0 drop r", "0 cycle", "0 stats"]


def queue_overflow(n):
    p = ["0 spawn", "0 setReporter 0", "0 root r 72 1 0 1", "0 scope r"]
    p += ["0 localEnter 6c", "0 close"] * n + ["0 lAddEvent 65 none", "0 lAddProps 0:6b=76", "0 ctxLocal", "0 close", "0 drop r", "0 cycle", "0 stats"]
    return p


def full_ring():
    return ["0 spawn", "1 spawn", "0 setReporter 1", "0 touch", "1 touch", "0 spam 10300", "0 root r 72 1 0 1", "0 child1 c 63 r", "0 withProps c 1:6b=76",
            "0 scope c", "0 localEnter 6c", "0 close", "0 close", "0 cancel r", "0 drop c", "0 drop r", "1 root q 71 2 0 1", "1 drop q",
            "0 cycle", "0 cycle", "0 root z 7a 3 0 1", "0 drop z", "0 cycle", "0 stats"]


def parked_backlog():
    # more than two queue lengths of finish signals on one thread with no collector cycle in between: the queue is
    # full, the overflow list grows, every call still returns at once
    return ["0 spawn", "0 setReporter 1", "0 touch", "0 root r 72 1 0 1", "0 child1 c 63 r", "0 drop c", "0 spam 20700", "0 root q 71 2 0 1", "0 cancel q", "0 drop q",
            "0 cancel r", "0 drop r", "0 cycle", "0 cycle", "0 cycle", "0 root z 7a 3 0 1", "0 drop z", "0 cycle", "0 stats"]


def tls_probe():
    return ["0 spawn", "1 spawn", "2 spawn", "0 setReporter 0", "1 root r 72 1 0 1", "1 child1 c 63 r", "1 scope r", "1 localEnter 6c", "1 tlsProbe c", "1 exit",
            "2 tlsProbe nosuch", "2 exit", "0 drop r", "0 cycle", "0 cycle", "0 probeStats"]


def extra(r):
    out = [("focus/deep-nesting-4100", deep_nesting(4100), ["no_panic"]),
           ("focus/queue-overflow-10245", queue_overflow(10245), ["no_panic"]),
           ("focus/full-ring", full_ring(), ["no_panic"]),
           ("focus/parked-backlog-20700", parked_backlog(), ["no_panic"]),
           ("nomodel/tls-teardown", tls_probe(), ["no_panic"]),
           K.case("C07", "D20", ["no_panic"], with_model=False)]
    return out


def knobs(r, i):
    # half of the programs run their collector cycles step by step, with operations of every thread in between
    return {"stepped": i % 2 == 0, "stepped_flush": i % 4 == 0, "unwinds": i % 3 == 0, "open_at_close": i % 5 == 0}


def run(v, tier, seed, replay):
    cases, impl, model = seqcheck.run(v, tier, seed, replay, "C07", ["C07"], tree_oracles=["no_panic"], wild_oracles=["no_panic"], extra_cases=extra, knobs=knobs, wild_knobs=knobs, known=K.known("C07", "D20"),
                                      n_quick=(600, 2700), n_thorough=(20000, 90000),
                                      nontrivial=lambda lines, tr: True,
                                      assumptions=["blocking inside the allocator, the OS or parking_lot is outside the model; every call is run under an 8 s deadline",
                                                   "precondition of C07: guards are released in reverse order of creation on their own thread (enforced by the guard stack of the harness)"])
    # D18 (fixed): SpanContext::random() / TraceId::random() / SpanId::random() called from a thread-local destructor that runs
    # after rand's own thread-local generator was destroyed
    if impl is not None and not replay:
        for (kind, tag, lines, names), outs in zip(cases, impl):
            if tag == "nomodel/tls-teardown" and outs:
                last = outs[-1]
                if not last.startswith("probe ") or "random_panics=0" not in last or "random_runs=0" in last:
                    v.violation("SpanContext::random() / TraceId::random() / SpanId::random() panicked when called while the thread's local storage was being torn down (%s)" % last,
                                {"program": lines, "stream": "wild", "implementation_transcript": outs})
