"""C18 — recorded times are consistent with execution."""
import json
import os

import common as C
import oracles as O
import proggen
import seqrun


def run(v, tier, seed, replay):
    lean = C.lean_check(["C18"], tier)
    ok, err = C.cargo_build("fh-core", ["fh-seq"])
    n = 1000 if tier == "quick" else 40000
    r = C.Rng(seed * 1000003 + 18)
    gens = []
    if replay:
        rp = json.load(open(replay))
        cases = [rp["program"]]
        specs = [proggen.spec_of(cases[0])]
    else:
        gens = [proggen.make(r.fork(), "tree", {"adapters": i % 4 == 0, "cycle_density": 1 + i % 3, "threads": 1 + i % 3, "ops": 20 + r.below(80), "open_at_close": i % 2 == 1, "sleeps": i % 3 != 0, "prebuilt": i % 2 == 0, "re_names": i % 3 == 1}) for i in range(n)]
        cases = [g.lines for g in gens]
        specs = [g.s for g in gens]
        # unit boundaries of the duration arithmetic: a local span and a thread-safe span open for more than
        # one second (ns -> s carry) and more than 2^32 ns (a 32-bit truncation), with a nested span and an event
        for us in (1_100_000, 4_400_000):
            long = ["0 spawn", "0 setReporter 0", "0 root r 72 1 0 1", "0 scope r", "0 localEnter 6f", "0 sleep %d" % us, "0 localEnter 69", "0 close",
                    "0 lAddEvent 65 none", "0 elapsed r", "0 close", "0 close", "0 drop r", "0 cycle", "0 stats"]
            cases.append(long)
            specs.append(proggen.spec_of(long))
        # an `Event` value built before the local span it is recorded in is entered (and before the thread-safe span it is
        # added to was created): its timestamp is the instant of the recording call, not of `Event::new`
        pre = ["0 spawn", "0 setReporter 0", "0 root r 72 1 0 1", "0 scope r", "0 evNew e1 6531 none", "0 evNew e2 6532 6b=76", "0 evNew e3 6533 none", "0 sleep 2500",
               "0 localEnter 6f", "0 sleep 400", "0 lAddEventPre e1 6531 none", "0 localEnter 69", "0 lAddEventPre e2 6532 6b=76", "0 close", "0 close",
               "0 child1 c 63 r", "0 sleep 400", "0 addEventPre c e3 6533 none", "0 drop c", "0 close", "0 drop r", "0 cycle", "0 stats"]
        cases.append(pre)
        specs.append(proggen.spec_of(pre))
        # a span name whose conversion (`impl Into<Cow<'static, str>>`, user code) records a local span itself: that span
        # is an earlier sibling of the named span and ends before the named span begins
        ren = ["0 spawn", "0 setReporter 0", "0 root r 72 1 0 1", "0 scope r", "0 localEnter 6f", "0 sleep 300", "0 localEnterRe 6e", "0 sleep 300", "0 close",
               "0 childLocalRe c 63", "0 sleep 300", "0 drop c", "0 close", "0 close", "0 drop r", "0 cycle", "0 stats"]
        cases.append(ren)
        specs.append(proggen.spec_of(ren))
        # a span whose name is the empty string (legal through the API) is timed like any other, whichever constructor made it
        for mk in (["0 root e - 2 0 1"], ["0 root p 70 2 0 1", "0 child1 e - p"], ["0 root p 70 2 0 1", "0 scope p", "0 childLocal e -", "0 close"],
                   ["0 root p 70 2 0 1", "0 root q 71 3 0 1", "0 childN e - p,q", "0 drop q"]):
            emp = ["0 spawn", "0 setReporter 0", "0 sleep 300000"] + mk + ["0 sleep 2500", "0 child1 c 63 e", "0 sleep 2500", "0 elapsed e", "0 drop c", "0 drop e"] \
                + (["0 drop p"] if any(" p " in x or x.endswith(" p") or " p," in x for x in mk) else []) + ["0 cycle", "0 stats"]
            cases.append(emp)
            specs.append(proggen.spec_of(emp))
    impl = seqrun.run_impl(cases, env={"FH_TIMES": "1"}) if ok else None
    model = seqrun.run_model(cases)
    fails, mism, nontriv, recs = [], [], set(), 0
    if impl is not None:
        for ci, (lines, spec, outs) in enumerate(zip(cases, specs, impl)):
            plain, times = seqrun.split_times(outs)
            try:
                tr = O.Transcript(lines, plain)
                f = O.o_no_panic(spec, tr) + O.o_times(spec, tr, times)
            except Exception as ex:
                f, tr = ["unparsable transcript: %s" % ex], None
            if tr is not None:
                d = tr.delivered()
                recs += len(d)
                if any(x["dur"] > 0 for _, x in d):
                    nontriv.add("\n".join(lines))
                # model: the same instants, as logical clock ticks, must be ordered the same way
                if model is not None and ci < len(model):
                    i = seqrun.first_mismatch(plain, model[ci])
                    if i is not None:
                        mism.append((ci, i))
                    else:
                        mt = O.Transcript(lines, model[ci])
                        for (p1, a), (p2, b) in zip(d, mt.delivered()):
                            if (a["dur"] == 0) != (b["dur"] == 0) and a["name"] == b["name"] and b["dur"] == 0:
                                f.append("record %r has duration %d in the implementation where the model's clock readings coincide" % (a["name"], a["dur"]))
            for x in f:
                fails.append((ci, x))
    seen = set()
    for ci, msg in fails:
        if ci in seen or len(seen) >= 3:
            continue
        seen.add(ci)
        v.violation(msg, {"program": cases[ci], "implementation_transcript": impl[ci], "how_to_replay": "./check C18 --replay <this file>"})
    if not fails:
        if not ok:
            v.violation("harness does not build against /repo: " + err, {"stderr": err}, found_input=False, tag="build")
        elif mism:
            ci, i = mism[0]
            v.violation("model/implementation correspondence broken at %r" % cases[ci][i], {"program": cases[ci], "line": i}, found_input=False, tag="corr")
        elif lean["failures"]:
            v.violation("proof obligation no longer checks: " + "; ".join(lean["failures"])[:400], {"theorem_or_obligation": lean["failures"]}, found_input=False, tag="proof")
    v.coverage = {
        "obligations": lean["obligations"], "discharged": lean["discharged"] if not lean["failures"] else min(lean["discharged"], lean["obligations"] - 1),
        "checker_cmd": "cd lean && lake build FastraceModel.Props.C18 FastraceModel.Props.ParamsOk && lake env lean <#print axioms>" + (" && lake env leanchecker FastraceModel.Props.C18" if tier == "thorough" else ""),
        "trusted_base": C.TRUSTED_BASE + ["fastant: monotone clock, monotone conversion per anchor, TSC consistent across cores (assumed)", "std::time::Instant / SystemTime readings taken by the harness around every call"],
        "theorems": lean["theorems"], "axioms": lean["axioms"],
        "evaluations": len(cases), "distinct_nontrivial": len(nontriv),
        "rule": "generated programs (as C01/C13) run with every API call bracketed by monotonic and wall-clock readings; for each delivered record: duration within the window between creating and finishing call (tolerance 150 µs + 0.1 %), "
                "begin time within ±(3 ms + 0.2 % of the duration) of the creating call's wall-clock window, event timestamps inside the span's interval, local children inside local parents and siblings disjoint within one report, elapsed() within its window. non-trivial = distinct program with a record of non-zero duration",
        "samples": [{"program": cases[0][:30]}] if cases else [],
        "traces_validated_against_impl": len(cases) if impl is not None else 0, "records_checked": recs,
        "correspondence_mismatches": len(mism), "oracle_failures": len(fails),
    }
    v.assumptions = ["the real clock cannot be injected: the tie between model instants and real instants is relational (windows), see Props/C18.lean",
                     "clock anchors of different cycles may differ by microseconds; cross-report comparisons use a 100 µs tolerance"]
