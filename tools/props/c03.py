"""C03 — cancelable mode holds a trace until its root finishes, then delivers it whole."""
import seqcheck
import seqrun
from props import c09


def knobs(r, i):
    return {"cancelable": True, "threads": 1 + i % 3, "cycle_density": 1 + i % 3, "exits": i % 3 == 0, "multi": i % 4 == 0, "unwinds": i % 3 == 1, "stepped": i % 2 == 1}


def run(v, tier, seed, replay):
    cases, impl, model = seqcheck.run(v, tier, seed, replay, "C03", ["C03"], tree_oracles=["no_panic", "exactly_once", "tree"], knobs=knobs,
                 n_quick=(1800, 300), n_thorough=(60000, 5000),
                 assumptions=["cross-thread completeness relies on the two-pass drain with deferred commits and carried second-pass commands (defects D4, D14, repaired); cycles are run whole and step by step with operations of all threads in between"])
    if not replay and not v.violations:
        scen = {"big-trace-%d" % 1: c09.sc_big_trace(1), "recovery-%d" % 1: c09.sc_recovery(1)}
        tags = list(scen)
        s_impl = seqrun.run_impl([scen[t] for t in tags], jobs=2)
        s_model = seqrun.run_model([scen[t] for t in tags])
        for tag, bad in c09.check_scenarios({t: (scen[t], s_impl[i]) for i, t in enumerate(tags)})[:2]:
            v.violation(bad, {"program": scen[tag][:60] + ["…"] + scen[tag][-8:], "scenario": tag, "stream": "wild", "implementation_transcript_tail": [seqrun.strip_times(x)[:300] for x in s_impl[tags.index(tag)][-6:]]})
        if not v.violations and s_model:
            for i, t in enumerate(tags):
                k = seqrun.first_mismatch(s_impl[i], s_model[i])
                if k is not None:
                    v.violation("scenario %s: model/implementation correspondence broken at %r" % (t, scen[t][k] if k < len(scen[t]) else "<end>"), {"scenario": t, "line": k}, found_input=False, tag="corr-scen")
                    break
        v.coverage["scenarios"] = tags
