"""C03 — cancelable mode holds a trace until its root finishes, then delivers it whole."""
import seqcheck


def knobs(r, i):
    return {"cancelable": True, "threads": 1 + i % 3, "cycle_density": 1 + i % 3, "exits": i % 3 == 0, "multi": i % 4 == 0}


def run(v, tier, seed, replay):
    seqcheck.run(v, tier, seed, replay, "C03", ["C03"], tree_oracles=["no_panic", "exactly_once", "tree"], knobs=knobs,
                 n_quick=(600, 100), n_thorough=(60000, 5000),
                 assumptions=["cross-thread completeness relies on the drain being a consistent cut; the harness serialises operations and whole cycles, finer interleavings are open finding D4 (see C03_whole)"])
