//! Correspondence harness, reporter tier: hands record batches to the real reporters and
//! prints what they put on the wire.
use std::borrow::Cow;
use std::collections::HashMap;
use std::io::Read;
use std::io::Write;
use std::net::TcpListener;
use std::net::UdpSocket;
use std::panic::catch_unwind;
use std::panic::AssertUnwindSafe;
use std::sync::mpsc;
use std::sync::Arc;
use std::sync::Mutex;
use std::time::Duration;
use std::time::SystemTime;

use fastrace::collector::EventRecord;
use fastrace::collector::Reporter;
use fastrace::prelude::*;
use fh_core::*;

fn parse_props(s: &str) -> Option<Vec<(Cow<'static, str>, Cow<'static, str>)>> {
    if s == "_" {
        return Some(vec![]);
    }
    s.split('&')
        .map(|kv| {
            let (k, v) = kv.split_once('=')?;
            Some((Cow::Owned(str_of_hex(k)?), Cow::Owned(str_of_hex(v)?)))
        })
        .collect()
}

fn parse_events(s: &str) -> Option<Vec<EventRecord>> {
    if s == "_" {
        return Some(vec![]);
    }
    s.split('|')
        .map(|e| {
            let f: Vec<&str> = e.split('@').collect();
            if f.len() != 3 {
                return None;
            }
            Some(EventRecord {
                name: Cow::Owned(str_of_hex(f[0])?),
                timestamp_unix_ns: u64::from_str_radix(f[1], 16).ok()?,
                properties: parse_props(f[2])?,
            })
        })
        .collect()
}

fn parse_record(s: &str) -> Option<SpanRecord> {
    let f: Vec<&str> = s.split(',').collect();
    if f.len() != 8 {
        return None;
    }
    Some(SpanRecord {
        trace_id: TraceId(u128::from_str_radix(f[0], 16).ok()?),
        span_id: SpanId(u64::from_str_radix(f[1], 16).ok()?),
        parent_id: SpanId(u64::from_str_radix(f[2], 16).ok()?),
        begin_time_unix_ns: u64::from_str_radix(f[3], 16).ok()?,
        duration_ns: u64::from_str_radix(f[4], 16).ok()?,
        name: Cow::Owned(str_of_hex(f[5])?),
        properties: parse_props(f[6])?,
        events: parse_events(f[7])?,
    })
}

fn parse_records(s: &str) -> Option<Vec<SpanRecord>> {
    if s == "_" {
        return Some(vec![]);
    }
    s.split(';').map(parse_record).collect()
}

struct Env {
    udp: UdpSocket,
    http_rx: mpsc::Receiver<Vec<u8>>,
    http_addr: std::net::SocketAddr,
}

fn http_server(listener: TcpListener, tx: mpsc::Sender<Vec<u8>>) {
    for stream in listener.incoming() {
        let Ok(mut s) = stream else { continue };
        let mut buf = Vec::new();
        let mut tmp = [0u8; 65536];
        let mut body_start = None;
        let mut content_len = 0usize;
        loop {
            let n = match s.read(&mut tmp) {
                Ok(0) | Err(_) => break,
                Ok(n) => n,
            };
            buf.extend_from_slice(&tmp[..n]);
            if body_start.is_none() {
                if let Some(p) = buf.windows(4).position(|w| w == b"\r\n\r\n") {
                    body_start = Some(p + 4);
                    let head = String::from_utf8_lossy(&buf[..p]).to_ascii_lowercase();
                    for l in head.lines() {
                        if let Some(v) = l.strip_prefix("content-length:") {
                            content_len = v.trim().parse().unwrap_or(0);
                        }
                    }
                }
            }
            if let Some(b) = body_start {
                if buf.len() >= b + content_len {
                    break;
                }
            }
        }
        let b = body_start.unwrap_or(buf.len());
        let head = String::from_utf8_lossy(&buf[..b]).to_string();
        let first = head.lines().next().unwrap_or("").to_string();
        let ct = head
            .lines()
            .find(|l| l.to_ascii_lowercase().starts_with("content-type:"))
            .unwrap_or("")
            .to_string();
        let _ = s.write_all(b"HTTP/1.1 200 OK\r\nContent-Length: 2\r\nConnection: close\r\n\r\n{}");
        let mut msg = format!("{}|{}|", first, ct).into_bytes();
        msg.extend_from_slice(&buf[b..]);
        let _ = tx.send(msg);
    }
}

#[derive(Debug, Clone)]
struct Capture(Arc<Mutex<Vec<opentelemetry_sdk::trace::SpanData>>>);

impl opentelemetry_sdk::trace::SpanExporter for Capture {
    fn export(
        &self,
        batch: Vec<opentelemetry_sdk::trace::SpanData>,
    ) -> impl std::future::Future<Output = opentelemetry_sdk::error::OTelSdkResult> + Send {
        self.0.lock().unwrap().extend(batch);
        async { Ok(()) }
    }
}

fn st(t: SystemTime) -> String {
    match t.duration_since(SystemTime::UNIX_EPOCH) {
        Ok(d) => format!("{:x}.{:x}", d.as_secs(), d.subsec_nanos()),
        Err(_) => "neg".into(),
    }
}

fn kvs(a: &[opentelemetry::KeyValue]) -> String {
    if a.is_empty() {
        return "_".into();
    }
    a.iter()
        .map(|kv| format!("{}={}", hex_of_str(kv.key.as_str()), hex_of_str(&kv.value.as_str())))
        .collect::<Vec<_>>()
        .join("&")
}

static JAEGER: Mutex<Option<HashMap<String, Arc<Mutex<fastrace_jaeger::JaegerReporter>>>>> = Mutex::new(None);

fn step(env: &Env, line: &str) -> String {
    let w: Vec<&str> = line.split_whitespace().collect();
    match w.as_slice() {
        ["jaeger", svc, recs] => {
            let (Some(svc), Some(recs)) = (str_of_hex(svc), parse_records(recs)) else {
                return "bad-op".into();
            };
            // one reporter per service for the whole run, as an application has: whatever state a reporter keeps
            // between `report()` calls is carried from batch to batch
            let rep = {
                let mut cache = JAEGER.lock().unwrap();
                cache
                    .get_or_insert_with(HashMap::new)
                    .entry(svc.clone())
                    .or_insert_with(|| {
                        Arc::new(Mutex::new(
                            fastrace_jaeger::JaegerReporter::new(env.udp.local_addr().unwrap(), svc.clone()).unwrap(),
                        ))
                    })
                    .clone()
            };
            // C20: the call terminates — run it under a deadline
            let (done_tx, done_rx) = mpsc::channel::<bool>();
            std::thread::spawn(move || {
                let r = catch_unwind(AssertUnwindSafe(move || {
                    let mut rep = rep.lock().unwrap_or_else(|e| e.into_inner());
                    rep.report(recs)
                }));
                let _ = done_tx.send(r.is_ok());
            });
            match done_rx.recv_timeout(Duration::from_secs(10)) {
                Ok(true) => {}
                Ok(false) => return "panic".into(),
                Err(_) => return "hang report() did not return within 10 s".into(),
            }
            let mut out = String::from("dg");
            let mut buf = vec![0u8; 70000];
            loop {
                match env.udp.recv_from(&mut buf) {
                    Ok((n, _)) => {
                        out.push(' ');
                        out.push_str(&hex_of_bytes(&buf[..n]));
                    }
                    Err(_) => break,
                }
            }
            out
        }
        // a batch is reported while nothing listens on the agent's port (it is lost, as UDP allows); then the agent comes
        // up and a second batch is reported through the same reporter: that one must arrive
        ["jaegerLate", svc, recs1, recs2] => {
            let (Some(svc), Some(recs1), Some(recs2)) = (str_of_hex(svc), parse_records(recs1), parse_records(recs2)) else {
                return "bad-op".into();
            };
            for _attempt in 0..5 {
                let probe = UdpSocket::bind("127.0.0.1:0").unwrap();
                let addr = probe.local_addr().unwrap();
                drop(probe);
                let mut rep = fastrace_jaeger::JaegerReporter::new(addr, svc.clone()).unwrap();
                rep.report(recs1.clone());
                std::thread::sleep(Duration::from_millis(30));
                let Ok(agent) = UdpSocket::bind(addr) else { continue };
                agent.set_read_timeout(Some(Duration::from_millis(300))).unwrap();
                rep.report(recs2.clone());
                let mut out = String::from("dg");
                let mut buf = vec![0u8; 70000];
                while let Ok((n, _)) = agent.recv_from(&mut buf) {
                    out.push(' ');
                    out.push_str(&hex_of_bytes(&buf[..n]));
                    agent.set_read_timeout(Some(Duration::from_millis(50))).unwrap();
                }
                return out;
            }
            "bad-op could not re-bind the agent port".into()
        }
        ["datadog", svc, res, ty, recs] => {
            let (Some(svc), Some(res), Some(ty), Some(recs)) =
                (str_of_hex(svc), str_of_hex(res), str_of_hex(ty), parse_records(recs))
            else {
                return "bad-op".into();
            };
            let mut rep = fastrace_datadog::DatadogReporter::new(env.http_addr, svc, res, ty);
            let empty = recs.is_empty();
            rep.report(recs);
            if empty {
                return match env.http_rx.try_recv() {
                    Ok(_) => "dd unexpected-request".into(),
                    Err(_) => "dd none".into(),
                };
            }
            match env.http_rx.recv_timeout(Duration::from_secs(10)) {
                Ok(msg) => {
                    let mut parts = msg.splitn(3, |b| *b == b'|');
                    let first = String::from_utf8_lossy(parts.next().unwrap_or(b"")).to_string();
                    let ct = String::from_utf8_lossy(parts.next().unwrap_or(b"")).to_string();
                    let body = parts.next().unwrap_or(b"");
                    format!(
                        "dd {} {} {}",
                        hex_of_str(&first),
                        hex_of_str(&ct.to_ascii_lowercase()),
                        hex_of_bytes(body)
                    )
                }
                Err(_) => "dd no-request".into(),
            }
        }
        ["otel", recs] => {
            let Some(recs) = parse_records(recs) else {
                return "bad-op".into();
            };
            let cap = Capture(Arc::new(Mutex::new(vec![])));
            let mut rep = fastrace_opentelemetry::OpenTelemetryReporter::new(
                cap.clone(),
                opentelemetry::trace::SpanKind::Server,
                Cow::Owned(opentelemetry_sdk::Resource::builder_empty().build()),
                opentelemetry::InstrumentationScope::builder("fh").build(),
            );
            rep.report(recs);
            let got = cap.0.lock().unwrap();
            let mut out = String::from("otel");
            for d in got.iter() {
                let evs = if d.events.events.is_empty() {
                    "_".to_string()
                } else {
                    d.events
                        .events
                        .iter()
                        .map(|e| format!("{}@{}@{}", hex_of_str(&e.name), st(e.timestamp), kvs(&e.attributes)))
                        .collect::<Vec<_>>()
                        .join("|")
                };
                out.push_str(&format!(
                    " {},{},{},{},{},{},{},{}",
                    hex_of_bytes(&d.span_context.trace_id().to_bytes()),
                    hex_of_bytes(&d.span_context.span_id().to_bytes()),
                    hex_of_bytes(&d.parent_span_id.to_bytes()),
                    st(d.start_time),
                    st(d.end_time),
                    hex_of_str(&d.name),
                    kvs(&d.attributes),
                    evs
                ));
            }
            out
        }
        _ => "bad-op".into(),
    }
}

fn main() {
    std::panic::set_hook(Box::new(|_| {}));
    let udp = UdpSocket::bind("127.0.0.1:0").unwrap();
    udp.set_nonblocking(true).unwrap();
    // a whole batch's datagrams must fit the receive queue: raise SO_RCVBUF to the system maximum
    unsafe {
        use std::os::fd::AsRawFd;
        let sz: libc::c_int = 64 << 20;
        libc::setsockopt(
            udp.as_raw_fd(),
            libc::SOL_SOCKET,
            libc::SO_RCVBUF,
            &sz as *const _ as *const libc::c_void,
            std::mem::size_of::<libc::c_int>() as libc::socklen_t,
        );
    }
    let listener = TcpListener::bind("127.0.0.1:0").unwrap();
    let http_addr = listener.local_addr().unwrap();
    let (tx, http_rx) = mpsc::channel();
    std::thread::spawn(move || http_server(listener, tx));
    let env = Env { udp, http_rx, http_addr };
    line_loop(|line| {
        catch_unwind(AssertUnwindSafe(|| step(&env, line))).unwrap_or_else(|_| "panic".into())
    });
}
