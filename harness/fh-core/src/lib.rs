//! Shared helpers of the correspondence harness: wire encoding and the protocol loop.
use std::io::BufRead;
use std::io::Write;

pub fn hex_of_bytes(b: &[u8]) -> String {
    let mut s = String::with_capacity(b.len() * 2);
    for x in b {
        s.push_str(&format!("{:02x}", x));
    }
    s
}

/// wire strings are the hex of their UTF-8 bytes; `-` stands for the empty string
pub fn hex_of_str(s: &str) -> String {
    if s.is_empty() {
        "-".to_string()
    } else {
        hex_of_bytes(s.as_bytes())
    }
}

pub fn bytes_of_hex(s: &str) -> Option<Vec<u8>> {
    if s.len() % 2 != 0 {
        return None;
    }
    let b = s.as_bytes();
    let mut out = Vec::with_capacity(b.len() / 2);
    for i in (0..b.len()).step_by(2) {
        let hi = (b[i] as char).to_digit(16)?;
        let lo = (b[i + 1] as char).to_digit(16)?;
        out.push((hi * 16 + lo) as u8);
    }
    Some(out)
}

pub fn str_of_hex(s: &str) -> Option<String> {
    if s == "-" {
        return Some(String::new());
    }
    String::from_utf8(bytes_of_hex(s)?).ok()
}

/// Runs `step` on every stdin line after the `mode` header; one output line per input line.
pub fn line_loop(mut step: impl FnMut(&str) -> String) {
    let stdin = std::io::stdin();
    let stdout = std::io::stdout();
    let mut out = std::io::BufWriter::new(stdout.lock());
    let mut first = true;
    for line in stdin.lock().lines() {
        let line = line.unwrap();
        if first {
            first = false;
            if line.starts_with("mode ") {
                continue;
            }
        }
        let r = step(&line);
        writeln!(out, "{}", r).unwrap();
        if r.starts_with("hang") {
            // a call did not return: its thread is still running; stop here (the remaining requests go unanswered)
            break;
        }
    }
    out.flush().unwrap();
}
