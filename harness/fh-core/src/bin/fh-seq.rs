//! Correspondence harness, API tier: executes programs over the public span API, one logical
//! thread per OS thread, one operation at a time, with collector cycles (whole or stepped
//! through the `fastrace::verif` hook points) placed where the program says.
//!
//! Parent mode (default): splits stdin into cases and runs each in a fresh child process
//! (`--one`), so every case starts from pristine global state.
use std::borrow::Cow;
use std::cell::Cell;
use std::collections::HashMap;
use std::io::BufRead;
use std::io::Read;
use std::io::Write;
use std::panic::catch_unwind;
use std::panic::AssertUnwindSafe;
use std::process::Command;
use std::process::Stdio;
use std::sync::mpsc;
use std::sync::Arc;
use std::sync::Mutex;
use std::time::Duration;

use fastrace::collector::Config;
use fastrace::collector::Reporter;
use fastrace::collector::SpanRecord;
use fastrace::local::LocalCollector;
use fastrace::local::LocalParentGuard;
use fastrace::local::LocalSpans;
use fastrace::prelude::*;
use fastrace::verif;
use fh_core::*;

const OP_TIMEOUT: Duration = Duration::from_secs(8);
/// true in the `fh-off` crate, which compiles this file against fastrace without `enable`
const OFF: bool = cfg!(feature = "off");

/// the number of threads this process has created so far (std's `ThreadId`s are handed out one after another):
/// the id of a probe thread spawned now
fn thread_counter() -> u64 {
    let id = std::thread::spawn(|| format!("{:?}", std::thread::current().id())).join().unwrap_or_default();
    id.trim_start_matches("ThreadId(").trim_end_matches(')').parse().unwrap_or(0)
}

// ---------------------------------------------------------------------------------- globals

static SPANS: Mutex<Option<HashMap<String, Span>>> = Mutex::new(None);
static LSPANS: Mutex<Option<HashMap<String, LocalSpans>>> = Mutex::new(None);
static PREFIXES: Mutex<Vec<(u64, usize)>> = Mutex::new(Vec::new());
static CLOSURE_CALLS: Mutex<u64> = Mutex::new(0);
/// `Event` values built by `evNew` and attached later by `lAddEventPre` / `addEventPre`
static EVENTS: Mutex<Option<HashMap<String, Event>>> = Mutex::new(None);

thread_local! {
    static IS_COLLECTOR: Cell<bool> = const { Cell::new(false) };
    /// armed by the `tlsProbe` op: its destructor calls the tracing API while the thread's
    /// local storage is being torn down
    static PROBE: std::cell::RefCell<Option<Probe>> = const { std::cell::RefCell::new(None) };
    /// the same probe in a thread-local that is touched at thread start, before the thread's first tracing
    /// call: it is destroyed *after* fastrace's own thread-locals, so its destructor meets them destroyed
    static PROBE_EARLY: std::cell::RefCell<Option<Probe>> = const { std::cell::RefCell::new(None) };
}

/// operations completed by each logical thread (background operations wait on these)
static OPS_DONE: [std::sync::atomic::AtomicU64; 16] = [const { std::sync::atomic::AtomicU64::new(0) }; 16];

static PROBE_PANICKED: std::sync::atomic::AtomicBool = std::sync::atomic::AtomicBool::new(false);
/// how often the `SpanContext::random()` part of a teardown probe panicked (reported by `probeStats`)
static PROBE_RANDOM_PANICS: std::sync::atomic::AtomicUsize = std::sync::atomic::AtomicUsize::new(0);
static PROBE_RANDOM_RUNS: std::sync::atomic::AtomicUsize = std::sync::atomic::AtomicUsize::new(0);

// ------------------------------------------------------------------------------- adapters
//
// The inner future / stream / sink of an adapter is *scripted by the driver*: when the adapter
// method calls it, it answers the `adPoll` line, then executes the following protocol lines on
// this thread (inside the adapter's call, i.e. under its local-parent guard) until the line
// `adEnd <adapter> <result>`, and returns that result to the adapter.

struct ThreadIo {
    k: usize,
    rx: mpsc::Receiver<String>,
    tx: mpsc::Sender<String>,
    guards: *mut Vec<G>,
}

thread_local! {
    static IO: std::cell::RefCell<Option<ThreadIo>> = const { std::cell::RefCell::new(None) };
}

/// runs protocol lines until `adEnd`; returns its result token
fn nested_loop() -> String {
    let (k, guards) = IO.with(|io| {
        let io = io.borrow();
        let io = io.as_ref().unwrap();
        let _ = io.tx.send("ok".into()); // the answer to the `adPoll` line
        (io.k, io.guards)
    });
    loop {
        let line = IO.with(|io| io.borrow().as_ref().unwrap().rx.recv());
        let Ok(line) = line else { return "pending".into() };
        let w: Vec<&str> = line.split_whitespace().collect();
        if w.first() == Some(&"adEnd") {
            return w.get(2).unwrap_or(&"pending").to_string();
        }
        let r = catch_unwind(AssertUnwindSafe(|| thread_op(k, unsafe { &mut *guards }, &w)));
        let out = match r {
            Ok(Some(s)) => s,
            Ok(None) => "bad-op parse".into(),
            Err(_) => "panic".into(),
        };
        IO.with(|io| {
            let _ = io.borrow().as_ref().unwrap().tx.send(out);
        });
    }
}

/// the inner future / stream / sink, scripted by the driver; the flag = the stream has announced its last item
#[derive(Default)]
struct Scripted(bool);
impl std::future::Future for Scripted {
    type Output = ();
    fn poll(self: std::pin::Pin<&mut Self>, _cx: &mut std::task::Context<'_>) -> std::task::Poll<()> {
        match nested_loop().as_str() {
            "pending" => std::task::Poll::Pending,
            _ => std::task::Poll::Ready(()),
        }
    }
}
impl futures_core::Stream for Scripted {
    type Item = u32;
    fn poll_next(self: std::pin::Pin<&mut Self>, _cx: &mut std::task::Context<'_>) -> std::task::Poll<Option<u32>> {
        match nested_loop().as_str() {
            "pending" => std::task::Poll::Pending,
            "none" => std::task::Poll::Ready(None),
            // an exact-size stream: after its last item `size_hint` says nothing is left, `None` comes with the next poll
            "item_last" => {
                self.get_mut().0 = true;
                std::task::Poll::Ready(Some(1))
            }
            _ => std::task::Poll::Ready(Some(1)),
        }
    }
    fn size_hint(&self) -> (usize, Option<usize>) {
        if self.0 { (0, Some(0)) } else { (0, None) }
    }
}
impl futures_sink::Sink<u32> for Scripted {
    type Error = ();
    fn poll_ready(self: std::pin::Pin<&mut Self>, _cx: &mut std::task::Context<'_>) -> std::task::Poll<Result<(), ()>> {
        sink_result(nested_loop())
    }
    fn start_send(self: std::pin::Pin<&mut Self>, _item: u32) -> Result<(), ()> {
        if nested_loop() == "err" { Err(()) } else { Ok(()) }
    }
    fn poll_flush(self: std::pin::Pin<&mut Self>, _cx: &mut std::task::Context<'_>) -> std::task::Poll<Result<(), ()>> {
        sink_result(nested_loop())
    }
    fn poll_close(self: std::pin::Pin<&mut Self>, _cx: &mut std::task::Context<'_>) -> std::task::Poll<Result<(), ()>> {
        sink_result(nested_loop())
    }
}
fn sink_result(r: String) -> std::task::Poll<Result<(), ()>> {
    match r.as_str() {
        "pending" => std::task::Poll::Pending,
        "err" => std::task::Poll::Ready(Err(())),
        _ => std::task::Poll::Ready(Ok(())),
    }
}

enum Ad {
    Fut(std::pin::Pin<Box<fastrace::future::InSpan<Scripted>>>),
    Eop(std::pin::Pin<Box<fastrace::future::EnterOnPoll<Scripted>>>),
    Stream(std::pin::Pin<Box<fastrace_futures::InSpan<Scripted>>>),
    Sink(std::pin::Pin<Box<fastrace_futures::InSpan<Scripted>>>),
}

static ADAPTERS: Mutex<Option<HashMap<String, Ad>>> = Mutex::new(None);

/// `cycleAtPush n`: the n-th ring push from now (by any thread) is preceded by one complete
/// collector cycle, run synchronously at the `SenderBeforePush` hook point
static CYCLE_AT_PUSH: Mutex<Option<usize>> = Mutex::new(None);
static INLINE_CYCLES: Mutex<usize> = Mutex::new(0);

fn noop_waker() -> std::task::Waker {
    use std::task::RawWaker;
    use std::task::RawWakerVTable;
    fn clone(_: *const ()) -> RawWaker {
        RawWaker::new(std::ptr::null(), &VT)
    }
    fn noop(_: *const ()) {}
    static VT: RawWakerVTable = RawWakerVTable::new(clone, noop, noop, noop);
    unsafe { std::task::Waker::from_raw(RawWaker::new(std::ptr::null(), &VT)) }
}

struct Probe {
    held: Option<Span>,
}

impl Drop for Probe {
    fn drop(&mut self) {
        let held = self.held.take();
        let r = catch_unwind(AssertUnwindSafe(move || {
            let _ = SpanContext::current_local_parent();
            let l = LocalSpan::enter_with_local_parent("tls-local").with_property(|| ("k", "v"));
            LocalSpan::add_event(Event::new("tls-ev"));
            LocalSpan::add_property(|| ("k", "v"));
            drop(l);
            let c = LocalCollector::start();
            let _ = c.collect();
            let s = Span::enter_with_local_parent("tls-span");
            let g = s.set_local_parent();
            drop(g);
            drop(s);
            if let Some(h) = held {
                h.add_property(|| ("k", "v"));
                h.add_event(Event::new("tls-ev2"));
                let _ = SpanContext::from_span(&h);
                let ch = Span::enter_with_parent("tls-child", &h);
                let g = ch.set_local_parent();
                let _l = LocalSpan::enter_with_local_parent("tls-local2");
                drop(_l);
                drop(g);
                drop(ch);
                h.cancel();
                drop(h);
            }
            let r = Span::root("tls-root", SpanContext::new(TraceId(1), SpanId(1)).sampled(false));
            drop(r);
        }));
        // ids drawn from `rand`'s thread-local generator, which may already be destroyed
        let r2 = catch_unwind(AssertUnwindSafe(|| {
            let s = Span::root("tls-random-root", SpanContext::random().sampled(false));
            drop(s);
            let _ = (TraceId::random(), SpanId::random());
        }));
        PROBE_RANDOM_RUNS.fetch_add(1, std::sync::atomic::Ordering::SeqCst);
        if r2.is_err() {
            PROBE_RANDOM_PANICS.fetch_add(1, std::sync::atomic::Ordering::SeqCst);
        }
        if r.is_err() {
            PROBE_PANICKED.store(true, std::sync::atomic::Ordering::SeqCst);
        }
    }
}

fn take_span(v: &str) -> Option<Span> {
    SPANS.lock().unwrap().get_or_insert_with(HashMap::new).remove(v)
}
fn put_span(v: &str, s: Span) {
    SPANS.lock().unwrap().get_or_insert_with(HashMap::new).insert(v.to_string(), s);
}
fn with_span<R>(v: &str, f: impl FnOnce(&Span) -> R) -> Option<R> {
    // the span is taken out while `f` runs so that no lock is held across user closures
    let s = take_span(v)?;
    let r = f(&s);
    put_span(v, s);
    Some(r)
}

fn canon(id: u64) -> String {
    if id == 0 {
        return "0".into();
    }
    let hi = id >> 32;
    for (p, k) in PREFIXES.lock().unwrap().iter() {
        if *p == hi {
            return format!("T{}#{}", k, id & 0xffff_ffff);
        }
    }
    format!("x{:x}", id)
}

fn parse_props(s: &str) -> Option<Vec<(String, String)>> {
    if s == "_" {
        return Some(vec![]);
    }
    s.split('&')
        .map(|kv| {
            let (k, v) = kv.split_once('=')?;
            Some((str_of_hex(k)?, str_of_hex(v)?))
        })
        .collect()
}

fn show_props(p: &[(Cow<'static, str>, Cow<'static, str>)]) -> String {
    if p.is_empty() {
        return "_".into();
    }
    p.iter().map(|(k, v)| format!("{}={}", hex_of_str(k), hex_of_str(v))).collect::<Vec<_>>().join("&")
}

fn show_record(r: &SpanRecord) -> String {
    let evs = if r.events.is_empty() {
        "_".to_string()
    } else {
        r.events
            .iter()
            .map(|e| format!("{}@{}", hex_of_str(&e.name), show_props(&e.properties)))
            .collect::<Vec<_>>()
            .join("|")
    };
    let times = format!(
        "{}:{}:{}",
        r.begin_time_unix_ns,
        r.duration_ns,
        r.events.iter().map(|e| e.timestamp_unix_ns.to_string()).collect::<Vec<_>>().join("/")
    );
    format!(
        "{:x},{},{},{},{},{}~{}",
        r.trace_id.0,
        canon(r.span_id.0),
        canon(r.parent_id.0),
        hex_of_str(&r.name),
        show_props(&r.properties),
        evs,
        times
    )
}

fn show_records(rs: &[SpanRecord], sorted: bool) -> String {
    if rs.is_empty() {
        return "-".into();
    }
    let mut l: Vec<String> = rs.iter().map(show_record).collect();
    if sorted {
        l.sort();
    }
    l.join(" ")
}

// --------------------------------------------------------------------------------- closures

struct Cl {
    kvs: Vec<(String, String)>,
    reenter: u32,
}

/// a span name given as a user type whose conversion into the name itself uses the tracing API
struct ReName(String);
impl From<ReName> for std::borrow::Cow<'static, str> {
    fn from(r: ReName) -> Self {
        let _s = LocalSpan::enter_with_local_parent("cl");
        std::borrow::Cow::Owned(r.0)
    }
}

fn parse_closure(s: &str) -> Option<Cl> {
    let (r, p) = s.split_once(':')?;
    Some(Cl { kvs: parse_props(p)?, reenter: r.parse().ok()? })
}

impl Cl {
    /// the body of the user closure
    fn call(&self, invoked: &Cell<bool>) -> Box<dyn Iterator<Item = (String, String)>> {
        invoked.set(true);
        *CLOSURE_CALLS.lock().unwrap() += 1;
        if self.reenter == 5 {
            // a lazy iterator: every item is produced by user code that itself uses the tracing API
            return Box::new(self.kvs.clone().into_iter().map(|kv| {
                let _s = LocalSpan::enter_with_local_parent("cl");
                kv
            }));
        }
        match self.reenter {
            1 => {
                let _s = LocalSpan::enter_with_local_parent("cl");
            }
            2 => LocalSpan::add_event(Event::new("cl-ev")),
            3 => {
                let _s = Span::enter_with_local_parent("cl-span");
            }
            4 => {
                let _ = SpanContext::current_local_parent();
            }
            _ => {}
        }
        Box::new(self.kvs.clone().into_iter())
    }
}

// ------------------------------------------------------------------------- logical threads

enum G {
    Scope(#[allow(dead_code)] LocalParentGuard),
    Local(Option<LocalSpan>),
    Coll(Option<LocalCollector>),
}

fn show_ctx(c: Option<SpanContext>) -> String {
    match c {
        None => "ctx none".into(),
        Some(c) => format!("ctx {:x} {} {}", c.trace_id.0, canon(c.span_id.0), c.sampled as u8),
    }
}

fn mk_event(name: String, props: &str) -> Option<Event> {
    let e = Event::new(name);
    if props == "none" {
        Some(e)
    } else {
        let p = parse_props(props)?;
        Some(e.with_properties(|| {
            *CLOSURE_CALLS.lock().unwrap() += 1;
            p
        }))
    }
}

/// executes one operation on the calling (logical) thread; `None` = unparsable
fn thread_op(k: usize, guards: &mut Vec<G>, w: &[&str]) -> Option<String> {
    Some(match w {
        ["spawn"] => {
            let id = SpanId::next_id().0;
            PREFIXES.lock().unwrap().push((id >> 32, k));
            "ok".into()
        }
        ["touch"] => {
            verif::touch_sender();
            "ok".into()
        }
        ["root", v, n, t, sp, b] => {
            let ctx = SpanContext::new(
                TraceId(u128::from_str_radix(t, 16).ok()?),
                SpanId(u64::from_str_radix(sp, 16).ok()?),
            )
            .sampled(*b == "1");
            put_span(v, Span::root(str_of_hex(n)?, ctx));
            "ok".into()
        }
        ["rootFrom", v, n, p, via] => {
            // a root created from the context of span `p`, directly or after a traceparent round trip
            let name = str_of_hex(n)?;
            match with_span(p, |ps| SpanContext::from_span(ps)) {
                None => "bad-op unknown span".into(),
                Some(None) => "bad-op no context".into(),
                Some(Some(ctx)) => {
                    let ctx = if *via == "tp" { SpanContext::decode_w3c_traceparent(&ctx.encode_w3c_traceparent())? } else { ctx };
                    put_span(v, Span::root(name, ctx));
                    "ok".into()
                }
            }
        }
        ["rootFromLocal", v, n, via] => {
            let name = str_of_hex(n)?;
            match SpanContext::current_local_parent() {
                None => "bad-op no context".into(),
                Some(ctx) => {
                    let ctx = if *via == "tp" { SpanContext::decode_w3c_traceparent(&ctx.encode_w3c_traceparent())? } else { ctx };
                    put_span(v, Span::root(name, ctx));
                    "ok".into()
                }
            }
        }
        ["child1", v, n, p] => {
            let name = str_of_hex(n)?;
            match with_span(p, |ps| Span::enter_with_parent(name, ps)) {
                Some(s) => {
                    put_span(v, s);
                    "ok".into()
                }
                None => "bad-op unknown span".into(),
            }
        }
        ["childN", v, n, ps] => {
            let name = str_of_hex(n)?;
            let names: Vec<&str> = if *ps == "_" { vec![] } else { ps.split(',').collect() };
            // parents may repeat; take each distinct one out once
            let mut taken: Vec<(String, Span)> = vec![];
            for p in &names {
                if taken.iter().any(|(q, _)| q == p) {
                    continue;
                }
                match take_span(p) {
                    Some(s) => taken.push((p.to_string(), s)),
                    None => {
                        for (q, s) in taken {
                            put_span(&q, s);
                        }
                        return Some("bad-op unknown span".into());
                    }
                }
            }
            let refs: Vec<&Span> =
                names.iter().map(|p| &taken.iter().find(|(q, _)| q == p).unwrap().1).collect();
            let s = Span::enter_with_parents(name, refs);
            for (q, sp) in taken {
                put_span(&q, sp);
            }
            put_span(v, s);
            "ok".into()
        }
        ["childLocal", v, n] => {
            put_span(v, Span::enter_with_local_parent(str_of_hex(n)?));
            "ok".into()
        }
        ["childLocalRe", v, n] => {
            put_span(v, Span::enter_with_local_parent(ReName(str_of_hex(n)?)));
            "ok".into()
        }
        ["withProps", v, cl] => {
            let cl = parse_closure(cl)?;
            let Some(s) = take_span(v) else { return Some("bad-op unknown span".into()) };
            let invoked = Cell::new(false);
            let s = s.with_properties(|| cl.call(&invoked));
            put_span(v, s);
            format!("cl {}", invoked.get() as u8)
        }
        ["addProps", v, cl] => {
            let cl = parse_closure(cl)?;
            let invoked = Cell::new(false);
            match with_span(v, |s| s.add_properties(|| cl.call(&invoked))) {
                Some(()) => format!("cl {}", invoked.get() as u8),
                None => "bad-op unknown span".into(),
            }
        }
        ["addEvent", v, n, p] => {
            let ev = mk_event(str_of_hex(n)?, p)?;
            match with_span(v, |s| s.add_event(ev)) {
                Some(()) => "ok".into(),
                None => "bad-op unknown span".into(),
            }
        }
        // the deprecated one-call forms: the property closure is handed over together with the target
        ["evToParent", v, n, cl] => {
            let cl = parse_closure(cl)?;
            let invoked = Cell::new(false);
            let name = str_of_hex(n)?;
            #[allow(deprecated)]
            match with_span(v, |s| {
                Event::add_to_parent(name, s, || {
                    cl.call(&invoked)
                        .map(|(k, v)| (std::borrow::Cow::Owned(k), std::borrow::Cow::Owned(v)))
                        .collect::<Vec<_>>()
                })
            }) {
                Some(()) => format!("cl {}", invoked.get() as u8),
                None => "bad-op unknown span".into(),
            }
        }
        ["evToLocal", n, cl] => {
            let cl = parse_closure(cl)?;
            let invoked = Cell::new(false);
            #[allow(deprecated)]
            Event::add_to_local_parent(str_of_hex(n)?, || {
                cl.call(&invoked)
                    .map(|(k, v)| (std::borrow::Cow::Owned(k), std::borrow::Cow::Owned(v)))
                    .collect::<Vec<_>>()
            });
            format!("cl {}", invoked.get() as u8)
        }
        ["pushChild", v, x] => {
            let ls = LSPANS.lock().unwrap().get_or_insert_with(HashMap::new).get(*x).cloned();
            match ls {
                None => "bad-op unknown span or local spans".into(),
                Some(ls) => match with_span(v, |s| s.push_child_spans(ls)) {
                    Some(()) => "ok".into(),
                    None => "bad-op unknown span or local spans".into(),
                },
            }
        }
        // a captured set goes out of scope
        ["dropLocalSpans", x] => {
            match LSPANS.lock().unwrap().get_or_insert_with(HashMap::new).remove(*x) {
                Some(ls) => {
                    drop(ls);
                    "ok".into()
                }
                None => "ok".into(),
            }
        }
        // the caller gives its last handle of the captured set away (moved, not cloned)
        ["pushChildLast", v, x] => {
            let ls = LSPANS.lock().unwrap().get_or_insert_with(HashMap::new).remove(*x);
            match ls {
                None => "bad-op unknown span or local spans".into(),
                Some(ls) => match with_span(v, move |s| s.push_child_spans(ls)) {
                    Some(()) => "ok".into(),
                    None => "bad-op unknown span or local spans".into(),
                },
            }
        }
        // a traceparent header from the network: decoding is a public tracing call like any other (only "returns" is judged
        // here; what it returns is C12's business)
        ["decodeTp", h] => {
            let text = str_of_hex(h)?;
            let _ = SpanContext::decode_w3c_traceparent(&text);
            "ok".into()
        }
        ["elapsed", v] => match with_span(v, |s| s.elapsed()) {
            Some(Some(d)) => format!("elapsed 1~{}", d.as_nanos()),
            Some(None) => "elapsed 0".into(),
            None => "bad-op unknown span".into(),
        },
        ["cancel", v] => match with_span(v, |s| s.cancel()) {
            Some(()) => "ok".into(),
            None => "bad-op unknown span".into(),
        },
        ["drop", v] => match take_span(v) {
            Some(s) => {
                drop(s);
                "ok".into()
            }
            None => "bad-op unknown span".into(),
        },
        ["scope", v] => match with_span(v, |s| s.set_local_parent()) {
            Some(g) => {
                guards.push(G::Scope(g));
                "ok".into()
            }
            None => "bad-op unknown span".into(),
        },
        ["localEnter", n] => {
            guards.push(G::Local(Some(LocalSpan::enter_with_local_parent(str_of_hex(n)?))));
            "ok".into()
        }
        ["localEnterRe", n] => {
            guards.push(G::Local(Some(LocalSpan::enter_with_local_parent(ReName(str_of_hex(n)?)))));
            "ok".into()
        }
        ["collectorStart"] => {
            guards.push(G::Coll(Some(LocalCollector::start())));
            "ok".into()
        }
        ["close"] => match guards.pop() {
            Some(g) => {
                drop(g);
                "ok".into()
            }
            None => "bad-op no guard".into(),
        },
        ["collect", x] => match guards.last_mut() {
            Some(G::Coll(c)) => {
                let c = c.take().unwrap();
                guards.pop();
                let ls = c.collect();
                LSPANS.lock().unwrap().get_or_insert_with(HashMap::new).insert(x.to_string(), ls);
                "ok".into()
            }
            _ => "bad-op most recent guard is not a collector".into(),
        },
        ["unwind"] => {
            // a panic unwinds through every guard of this thread (newest first) and is caught
            struct Rev<'a>(&'a mut Vec<G>);
            impl Drop for Rev<'_> {
                fn drop(&mut self) {
                    while let Some(g) = self.0.pop() {
                        drop(g);
                    }
                }
            }
            let r = catch_unwind(AssertUnwindSafe(|| {
                let _rev = Rev(guards);
                panic!("unwind");
            }));
            if r.is_err() { "ok".into() } else { "bad-op no panic".into() }
        }
        ["unwindLocals"] => {
            // a panic unwinds through the open local spans above the innermost scope — and is caught inside that scope
            struct Rev(Vec<G>);
            impl Drop for Rev {
                fn drop(&mut self) {
                    while let Some(g) = self.0.pop() {
                        drop(g);
                    }
                }
            }
            let mut i = guards.len();
            while i > 0 && matches!(guards[i - 1], G::Local(_)) {
                i -= 1;
            }
            let locals: Vec<G> = guards.drain(i..).collect();
            let r = catch_unwind(AssertUnwindSafe(move || {
                let _rev = Rev(locals);
                panic!("unwind");
            }));
            if r.is_err() { "ok".into() } else { "bad-op no panic".into() }
        }
        ["closeUnder"] => {
            // release the scope / collector guard beneath the still-open local spans first
            let mut i = guards.len();
            while i > 0 && matches!(guards[i - 1], G::Local(_)) {
                i -= 1;
            }
            if i == 0 {
                "bad-op no scope under the open local spans".into()
            } else {
                drop(guards.remove(i - 1));
                "ok".into()
            }
        }
        ["collectUnder", x] => {
            let mut i = guards.len();
            while i > 0 && matches!(guards[i - 1], G::Local(_)) {
                i -= 1;
            }
            if i > 0 && matches!(guards[i - 1], G::Coll(Some(_))) {
                if let G::Coll(Some(c)) = guards.remove(i - 1) {
                    let ls = c.collect();
                    LSPANS.lock().unwrap().get_or_insert_with(HashMap::new).insert(x.to_string(), ls);
                }
                "ok".into()
            } else {
                "bad-op no collector under the open local spans".into()
            }
        }
        ["lWithProps", cl] => {
            let cl = parse_closure(cl)?;
            match guards.last_mut() {
                Some(G::Local(slot)) => {
                    let invoked = Cell::new(false);
                    let s = slot.take().unwrap();
                    *slot = Some(s.with_properties(|| cl.call(&invoked)));
                    format!("cl {}", invoked.get() as u8)
                }
                _ => "bad-op most recent guard is not a local span".into(),
            }
        }
        // `.with_properties` on a local span that is not the most recent guard: newer scopes may have been opened since
        ["lWithPropsAt", k, cl] => {
            let k: usize = k.parse().ok()?;
            let cl = parse_closure(cl)?;
            let n = guards.len();
            match if k < n { guards.get_mut(n - 1 - k) } else { None } {
                Some(G::Local(slot)) => {
                    let invoked = Cell::new(false);
                    let s = slot.take().unwrap();
                    *slot = Some(s.with_properties(|| cl.call(&invoked)));
                    format!("cl {}", invoked.get() as u8)
                }
                _ => "bad-op guard is not a local span".into(),
            }
        }
        ["lAddProps", cl] => {
            let cl = parse_closure(cl)?;
            let invoked = Cell::new(false);
            LocalSpan::add_properties(|| cl.call(&invoked));
            format!("cl {}", invoked.get() as u8)
        }
        ["lAddEvent", n, p] => {
            LocalSpan::add_event(mk_event(str_of_hex(n)?, p)?);
            "ok".into()
        }
        // an `Event` value is built now and attached by a later call (possibly inside a span entered in between)
        ["evNew", e, n, p] => {
            let ev = mk_event(str_of_hex(n)?, p)?;
            EVENTS.lock().unwrap().get_or_insert_with(HashMap::new).insert(e.to_string(), ev);
            "ok".into()
        }
        ["lAddEventPre", e, _n, _p] => {
            let ev = EVENTS.lock().unwrap().get_or_insert_with(HashMap::new).remove(*e);
            match ev {
                Some(ev) => {
                    LocalSpan::add_event(ev);
                    "ok".into()
                }
                None => "bad-op unknown event".into(),
            }
        }
        ["addEventPre", v, e, _n, _p] => {
            let ev = EVENTS.lock().unwrap().get_or_insert_with(HashMap::new).remove(*e);
            match ev {
                Some(ev) => match with_span(v, |s| s.add_event(ev)) {
                    Some(()) => "ok".into(),
                    None => "bad-op unknown span".into(),
                },
                None => "bad-op unknown event".into(),
            }
        }
        ["ctxOf", v] => match with_span(v, |s| SpanContext::from_span(s)) {
            Some(c) => show_ctx(c),
            None => "bad-op unknown span".into(),
        },
        ["ctxLocal"] => show_ctx(SpanContext::current_local_parent()),
        ["toRecords", x, t, sp] => {
            let ls = LSPANS.lock().unwrap().get_or_insert_with(HashMap::new).get(*x).cloned();
            match ls {
                None => "bad-op unknown local spans".into(),
                Some(ls) => {
                    let ctx = SpanContext::new(
                        TraceId(u128::from_str_radix(t, 16).ok()?),
                        SpanId(u64::from_str_radix(sp, 16).ok()?),
                    );
                    format!("recs {}", show_records(&ls.to_span_records(ctx), false))
                }
            }
        }
        ["adNew", a, kind, arg] => {
            use fastrace::future::FutureExt as _;
            let ad = match *kind {
                "enterOnPoll" => Ad::Eop(Box::pin(Scripted::default().enter_on_poll(str_of_hex(arg)?))),
                _ => {
                    let Some(sp) = take_span(arg) else { return Some("bad-op unknown span".into()) };
                    match *kind {
                        "inSpan" => Ad::Fut(Box::pin(Scripted::default().in_span(sp))),
                        "stream" => Ad::Stream(Box::pin(fastrace_futures::StreamExt::in_span(Scripted::default(), sp))),
                        "sink" => Ad::Sink(Box::pin(fastrace_futures::SinkExt::<u32>::in_span(Scripted::default(), sp))),
                        _ => return None,
                    }
                }
            };
            ADAPTERS.lock().unwrap().get_or_insert_with(HashMap::new).insert(a.to_string(), ad);
            "ok".into()
        }
        ["adPoll", a, call] => {
            let Some(mut ad) = ADAPTERS.lock().unwrap().get_or_insert_with(HashMap::new).remove(*a) else {
                return Some("bad-op unknown adapter".into());
            };
            IO.with(|io| io.borrow_mut().as_mut().unwrap().guards = guards as *mut Vec<G>);
            let waker = noop_waker();
            let mut cx = std::task::Context::from_waker(&waker);
            {
                use futures_core::Stream as _;
                use futures_sink::Sink as _;
                use std::future::Future as _;
                match (&mut ad, *call) {
                    (Ad::Fut(f), "poll") => {
                        let _ = f.as_mut().poll(&mut cx);
                    }
                    (Ad::Eop(f), "poll") => {
                        let _ = f.as_mut().poll(&mut cx);
                    }
                    (Ad::Stream(f), "poll_next") => {
                        let _ = f.as_mut().poll_next(&mut cx);
                    }
                    (Ad::Sink(f), "poll_ready") => {
                        let _ = f.as_mut().poll_ready(&mut cx);
                    }
                    (Ad::Sink(f), "start_send") => {
                        let _ = f.as_mut().start_send(7);
                    }
                    (Ad::Sink(f), "poll_flush") => {
                        let _ = f.as_mut().poll_flush(&mut cx);
                    }
                    (Ad::Sink(f), "poll_close") => {
                        let _ = f.as_mut().poll_close(&mut cx);
                    }
                    _ => {
                        ADAPTERS.lock().unwrap().get_or_insert_with(HashMap::new).insert(a.to_string(), ad);
                        return Some("bad-op call does not fit the adapter".into());
                    }
                }
            }
            ADAPTERS.lock().unwrap().get_or_insert_with(HashMap::new).insert(a.to_string(), ad);
            // this is the answer to the `adEnd` line (the `adPoll` line was answered by the inner)
            "ok".into()
        }
        ["adDrop", a] => match ADAPTERS.lock().unwrap().get_or_insert_with(HashMap::new).remove(*a) {
            Some(ad) => {
                drop(ad);
                "ok".into()
            }
            None => "bad-op unknown adapter".into(),
        },
        ["tlsProbe", v] => {
            let held = take_span(v);
            PROBE.with(|p| *p.borrow_mut() = Some(Probe { held }));
            PROBE_EARLY.with(|p| *p.borrow_mut() = Some(Probe { held: None }));
            "ok".into()
        }
        ["spam", n] => {
            let n: usize = n.parse().ok()?;
            for _ in 0..n {
                let s = Span::root("spam", SpanContext::new(TraceId(0), SpanId(0)).sampled(false));
                drop(s);
            }
            "ok".into()
        }
        _ => return None,
    })
}

struct Logical {
    tx: mpsc::Sender<String>,
    rx: mpsc::Receiver<String>,
    join: Option<std::thread::JoinHandle<()>>,
}

fn spawn_logical(k: usize) -> Logical {
    let (tx, trx) = mpsc::channel::<String>();
    let (ttx, rx) = mpsc::channel::<String>();
    let join = std::thread::Builder::new()
        .name(format!("logical-{}", k))
        .spawn(move || {
            // registers the early probe's destructor before anything of fastrace is touched on this thread
            PROBE_EARLY.with(|_| {});
            let mut guards: Vec<G> = vec![];
            IO.with(|io| {
                *io.borrow_mut() = Some(ThreadIo { k, rx: trx, tx: ttx.clone(), guards: &mut guards as *mut Vec<G> })
            });
            while let Ok(line) = IO.with(|io| io.borrow().as_ref().unwrap().rx.recv()) {
                let w: Vec<&str> = line.split_whitespace().collect();
                if w.as_slice() == ["exit"] {
                    let r = catch_unwind(AssertUnwindSafe(|| {
                        while let Some(g) = guards.pop() {
                            drop(g);
                        }
                    }));
                    let _ = ttx.send(if r.is_ok() { "exiting".into() } else { "panic".into() });
                    break;
                }
                // `after <thread> <count> <op…>`: a background operation that starts once that thread has completed
                // `count` operations
                let w: Vec<&str> = if w.first() == Some(&"after") && w.len() > 3 {
                    let j: usize = w[1].parse().unwrap_or(0);
                    let target: u64 = w[2].parse().unwrap_or(0);
                    let t0 = std::time::Instant::now();
                    while OPS_DONE[j % 16].load(std::sync::atomic::Ordering::SeqCst) < target && t0.elapsed() < Duration::from_secs(20) {
                        std::thread::sleep(Duration::from_micros(200));
                    }
                    w[3..].to_vec()
                } else {
                    w
                };
                let r = catch_unwind(AssertUnwindSafe(|| thread_op(k, &mut guards, &w)));
                let out = match r {
                    Ok(Some(s)) => s,
                    Ok(None) => "bad-op parse".into(),
                    Err(_) => "panic".into(),
                };
                OPS_DONE[k % 16].fetch_add(1, std::sync::atomic::Ordering::SeqCst);
                if ttx.send(out).is_err() {
                    break;
                }
            }
            // leak guards of a thread that was never told to exit (process ends anyway)
            std::mem::forget(guards);
        })
        .unwrap();
    Logical { tx, rx, join: Some(join) }
}

// --------------------------------------------------------------------------- collector actor

struct Rep {
    tx: Mutex<mpsc::Sender<Vec<SpanRecord>>>,
}
impl Reporter for Rep {
    fn report(&mut self, spans: Vec<SpanRecord>) {
        let _ = self.tx.lock().unwrap().send(spans);
    }
}

static SECOND_PASS: std::sync::atomic::AtomicBool = std::sync::atomic::AtomicBool::new(false);

enum CMsg {
    Phase(&'static str),
    Done,
    /// the collector cycle panicked (reported at once instead of waiting out OP_TIMEOUT)
    Panicked,
}

struct Collector {
    cmd_tx: mpsc::Sender<bool>,          // start a cycle; payload = stepping
    go_tx: mpsc::Sender<()>,             // release from a hook point
    msg_rx: mpsc::Receiver<CMsg>,
}

fn start_collector() -> Collector {
    let (cmd_tx, cmd_rx) = mpsc::channel::<bool>();
    let (go_tx, go_rx) = mpsc::channel::<()>();
    let (msg_tx, msg_rx) = mpsc::channel::<CMsg>();
    let go_rx = Arc::new(Mutex::new(go_rx));
    let stepping = Arc::new(Mutex::new(false));
    {
        let msg_tx = Mutex::new(msg_tx.clone());
        let go_rx = go_rx.clone();
        let stepping = stepping.clone();
        verif::set_hook(Some(Arc::new(move |p: verif::Point| {
            if p == verif::Point::SenderBeforePush {
                let fire = {
                    let mut c = CYCLE_AT_PUSH.lock().unwrap();
                    match c.as_mut() {
                        Some(n) if *n <= 1 => {
                            *c = None;
                            true
                        }
                        Some(n) => {
                            *n -= 1;
                            false
                        }
                        None => false,
                    }
                };
                if fire {
                    verif::run_collector_cycle();
                    *INLINE_CYCLES.lock().unwrap() += 1;
                }
                return;
            }
            if !IS_COLLECTOR.with(|c| c.get()) || !*stepping.lock().unwrap() {
                return;
            }
            let name = match p {
                verif::Point::BeforeReceiver(_) => {
                    SECOND_PASS.store(false, std::sync::atomic::Ordering::SeqCst);
                    "rx"
                }
                // the second pass drains each retained receiver in one step
                verif::Point::ReceiverEmpty if SECOND_PASS.load(std::sync::atomic::Ordering::SeqCst) => return,
                verif::Point::ReceiverEmpty => "empty",
                verif::Point::SecondPass(_) => {
                    SECOND_PASS.store(true, std::sync::atomic::Ordering::SeqCst);
                    "rx2"
                }
                verif::Point::BeforeReport(_) => {
                    SECOND_PASS.store(false, std::sync::atomic::Ordering::SeqCst);
                    "report"
                }
                _ => return,
            };
            let _ = msg_tx.lock().unwrap().send(CMsg::Phase(name));
            let _ = go_rx.lock().unwrap().recv();
        })));
    }
    std::thread::Builder::new()
        .name("harness-collector".into())
        .spawn(move || {
            IS_COLLECTOR.with(|c| c.set(true));
            while let Ok(step) = cmd_rx.recv() {
                *stepping.lock().unwrap() = step;
                let r = catch_unwind(AssertUnwindSafe(verif::run_collector_cycle));
                *stepping.lock().unwrap() = false;
                let _ = msg_tx.send(if r.is_ok() { CMsg::Done } else { CMsg::Panicked });
            }
        })
        .unwrap();
    Collector { cmd_tx, go_tx, msg_rx }
}

// ------------------------------------------------------------------------------- one case

/// A `log` logger that turns every record into tracing calls, as the fastrace-aware appenders of logging frameworks
/// do (`logforth::append::FastraceEvent`): if the library ever logs while it holds one of its own borrows or locks,
/// the re-entrant call shows up as a panic or a hang.  The unchanged library never logs.
struct ReentrantLogger;
static REENTRANT_LOGGER: ReentrantLogger = ReentrantLogger;
pub static LOG_RECORDS: std::sync::atomic::AtomicUsize = std::sync::atomic::AtomicUsize::new(0);
impl log::Log for ReentrantLogger {
    fn enabled(&self, _: &log::Metadata) -> bool {
        true
    }
    fn log(&self, record: &log::Record) {
        LOG_RECORDS.fetch_add(1, std::sync::atomic::Ordering::Relaxed);
        LocalSpan::add_event(Event::new(record.level().as_str()).with_properties(|| [("message", record.args().to_string())]));
        let _l = LocalSpan::enter_with_local_parent("log");
        let _c = SpanContext::current_local_parent();
    }
    fn flush(&self) {}
}

fn run_case() {
    std::panic::set_hook(Box::new(|_| {}));
    let _ = log::set_logger(&REENTRANT_LOGGER);
    log::set_max_level(log::LevelFilter::Trace);
    let stdin = std::io::stdin();
    let stdout = std::io::stdout();
    let mut out = stdout.lock();
    let mut threads: HashMap<usize, Logical> = HashMap::new();
    let (rep_tx, rep_rx) = mpsc::channel::<Vec<SpanRecord>>();
    let mut rep_tx = Some(rep_tx);
    let coll = start_collector();
    let mut reporter_set = false;
    let mut in_cycle = false;
    let mut flush_rx: Option<mpsc::Receiver<bool>> = None;
    // logical threads with a background operation in flight (its answer has not been read yet)
    let mut bg_pending: std::collections::HashSet<usize> = std::collections::HashSet::new();

    let mut emit = |s: String| {
        writeln!(out, "{}", s).unwrap();
        out.flush().unwrap();
    };

    let finish_cycle = |reporter_set: bool| -> String {
        // after Done: the report, if a reporter is installed
        if !reporter_set {
            // no reporter (or tracing compiled out): the reporter must not have been called
            return match rep_rx.try_recv() {
                Ok(_) => "rep unexpected-report".into(),
                Err(_) => "rep none".into(),
            };
        }
        // the cycle has completed (or `flush()` has returned): `report` was called before that, if at all
        match rep_rx.recv_timeout(Duration::from_millis(500)) {
            Ok(rs) => format!("rep {}", show_records(&rs, true)),
            Err(_) => "rep missing".into(),
        }
    };

    let times = std::env::var("FH_TIMES").map(|v| v == "1").unwrap_or(false);
    let mono0 = std::time::Instant::now();
    for line in stdin.lock().lines() {
        let line = line.unwrap();
        let w: Vec<&str> = line.split_whitespace().collect();
        if w.is_empty() {
            continue;
        }
        let t_before = (mono0.elapsed().as_nanos(), std::time::SystemTime::now().duration_since(std::time::UNIX_EPOCH).unwrap().as_nanos());
        let Ok(k) = w[0].parse::<usize>() else {
            emit("bad-op parse".into());
            continue;
        };
        // the statically disabled build creates no thread at all: count the threads created during every call
        // (the harness itself creates one for `spawn` and one for `flushBegin`)
        let threads_before = if OFF { thread_counter() } else { 0 };
        let own_threads: u64 = if w.len() > 1 && (w[1] == "flushBegin" || (w[1] == "spawn" && !threads.contains_key(&k))) { 1 } else { 0 };
        let res: String = match &w[1..] {
            ["setReporter", c] => {
                if reporter_set {
                    "bad-op reporter already set".into()
                } else {
                    let tx = rep_tx.take().unwrap();
                    fastrace::set_reporter(
                        Rep { tx: Mutex::new(tx) },
                        Config::default()
                            .report_interval(Duration::from_secs(3600 * 24 * 365))
                            .cancelable(*c == "1"),
                    );
                    if OFF {
                        // compiled out: set_reporter is a no-op, nothing will ever be reported
                        "ok".into()
                    } else {
                        reporter_set = true;
                        // the background collector runs one cycle at start-up; wait it out
                        match rep_rx.recv_timeout(OP_TIMEOUT) {
                            Ok(_) => "ok".into(),
                            Err(_) => "timeout waiting for the start-up cycle".into(),
                        }
                    }
                }
            }
            ["cycle"] => {
                if in_cycle {
                    "bad-op cycle already in progress".into()
                } else {
                    coll.cmd_tx.send(false).unwrap();
                    match coll.msg_rx.recv_timeout(OP_TIMEOUT) {
                        Ok(CMsg::Done) => finish_cycle(reporter_set),
                        Ok(CMsg::Panicked) => "panic".into(),
                        _ => "timeout".into(),
                    }
                }
            }
            ["flush"] => {
                if in_cycle {
                    "bad-op cycle already in progress".into()
                } else {
                    fastrace::flush();
                    finish_cycle(reporter_set)
                }
            }
            ["flushBegin"] => {
                // `fastrace::flush()` on a helper thread: it may have to wait for a cycle that is in progress
                let (tx, rx) = mpsc::channel::<bool>();
                let (started_tx, started_rx) = mpsc::channel::<()>();
                std::thread::spawn(move || {
                    let _ = started_tx.send(());
                    let r = catch_unwind(fastrace::flush);
                    let _ = tx.send(r.is_ok());
                });
                // let the call get as far as the collector's lock before the driver goes on
                let _ = started_rx.recv_timeout(OP_TIMEOUT);
                std::thread::sleep(Duration::from_millis(3));
                flush_rx = Some(rx);
                "ok".into()
            }
            ["flushEnd"] => match flush_rx.take() {
                None => "bad-op no flush in progress".into(),
                Some(rx) => match rx.recv_timeout(OP_TIMEOUT) {
                    Ok(true) => finish_cycle(reporter_set),
                    Ok(false) => "panic".into(),
                    Err(_) => "timeout".into(),
                },
            },
            ["cycBegin"] => {
                if in_cycle {
                    "bad-op cycle already in progress".into()
                } else {
                    coll.cmd_tx.send(true).unwrap();
                    match coll.msg_rx.recv_timeout(OP_TIMEOUT) {
                        Ok(CMsg::Phase(p)) => {
                            in_cycle = true;
                            format!("phase {}", p)
                        }
                        // no reporter: handle_commands returns before BeforeReport
                        Ok(CMsg::Done) => "phase done".into(),
                        Ok(CMsg::Panicked) => "panic".into(),
                        Err(_) => "timeout".into(),
                    }
                }
            }
            ["cycStep"] => {
                if !in_cycle {
                    "bad-op no cycle in progress".into()
                } else {
                    coll.go_tx.send(()).unwrap();
                    match coll.msg_rx.recv_timeout(OP_TIMEOUT) {
                        Ok(CMsg::Phase(p)) => format!("phase {}", p),
                        Ok(CMsg::Done) => {
                            in_cycle = false;
                            finish_cycle(reporter_set)
                        }
                        Ok(CMsg::Panicked) => {
                            in_cycle = false;
                            "panic".into()
                        }
                        Err(_) => "timeout".into(),
                    }
                }
            }
            ["idSweep", n] => {
                // n short-lived threads, one after another, each draws its first span id: how many pairs of
                // threads drew the same one (= share an id prefix)?
                let n: usize = n.parse().unwrap_or(0);
                let mut seen: HashMap<u64, u64> = HashMap::new();
                for _ in 0..n {
                    let id = std::thread::spawn(|| fastrace::collector::SpanId::next_id().0).join().unwrap_or(0);
                    *seen.entry(id).or_insert(0) += 1;
                }
                let pairs: u64 = seen.values().map(|c| c * (c - 1) / 2).sum();
                format!("sweep n={} dup_pairs={}", n, pairs)
            }
            ["sleep", us] => {
                std::thread::sleep(Duration::from_micros(us.parse().unwrap_or(0)));
                "ok".into()
            }
            ["cycleAtPush", n] => {
                *CYCLE_AT_PUSH.lock().unwrap() = n.parse().ok();
                "ok".into()
            }
            ["inlineReport"] => {
                // the report of a cycle that ran inside a sender's hook
                let n = std::mem::take(&mut *INLINE_CYCLES.lock().unwrap());
                if n == 0 {
                    "rep none".into()
                } else {
                    let mut all = vec![];
                    for _ in 0..n {
                        if let Ok(rs) = rep_rx.recv_timeout(OP_TIMEOUT) {
                            all.extend(rs);
                        }
                    }
                    format!("rep {}", show_records(&all, true))
                }
            }
            ["probeStats"] => format!(
                "probe random_runs={} random_panics={}",
                PROBE_RANDOM_RUNS.load(std::sync::atomic::Ordering::SeqCst),
                PROBE_RANDOM_PANICS.load(std::sync::atomic::Ordering::SeqCst)
            ),
            ["procstats"] => {
                let mut n = 0;
                if let Ok(rd) = std::fs::read_dir("/proc/self/task") {
                    for e in rd.flatten() {
                        if let Ok(c) = std::fs::read_to_string(e.path().join("comm")) {
                            if c.starts_with("fastrace-") {
                                n += 1;
                            }
                        }
                    }
                }
                format!("proc closures={} fastrace_threads={}", *CLOSURE_CALLS.lock().unwrap(), n)
            }
            ["stats"] => {
                if in_cycle {
                    "bad-op cycle in progress".into()
                } else {
                    let st = verif::collector_stats();
                    let mut a: Vec<String> =
                        st.active.iter().map(|(c, n, m)| format!("{}:{}:{}", c, n, m)).collect();
                    a.sort();
                    format!(
                        "stats a={} rx={}{}",
                        if a.is_empty() { "-".to_string() } else { a.join(",") },
                        st.receivers,
                        if st.parked_cancels == 0 { String::new() } else { format!(" pc={}", st.parked_cancels) }
                    )
                }
            }
            // background operations: the operation is started on its thread and may block (a thread's first use of
            // its command channel waits for the registry lock while the collector drains); the driver goes on
            [bg @ ("bgBegin" | "bgAfter"), rest @ ..] if !rest.is_empty() => match threads.get_mut(&k) {
                None => "bad-op thread not spawned".into(),
                Some(_) if bg_pending.contains(&k) => "bad-op background operation in flight".into(),
                Some(th) => {
                    let line = if *bg == "bgAfter" {
                        let j: usize = rest[0].parse().unwrap_or(0);
                        let target = OPS_DONE[j % 16].load(std::sync::atomic::Ordering::SeqCst) + if bg_pending.contains(&j) { 1 } else { 0 };
                        format!("after {} {} {}", j, target, rest[1..].join(" "))
                    } else {
                        rest.join(" ")
                    };
                    if th.tx.send(line).is_err() {
                        "bad-op thread gone".into()
                    } else {
                        match th.rx.recv_timeout(Duration::from_millis(60)) {
                            Ok(s) => format!("bg done {}", s),
                            Err(_) => {
                                bg_pending.insert(k);
                                "bg blocked".into()
                            }
                        }
                    }
                }
            },
            ["bgEnd"] => match threads.get_mut(&k) {
                Some(th) if bg_pending.remove(&k) => match th.rx.recv_timeout(OP_TIMEOUT) {
                    Ok(s) => s,
                    Err(_) => "timeout".into(),
                },
                _ => "bad-op no background operation".into(),
            },
            rest => {
                if rest == ["spawn"] && !threads.contains_key(&k) {
                    threads.insert(k, spawn_logical(k));
                }
                match threads.get_mut(&k) {
                    None => "bad-op thread not spawned".into(),
                    Some(th) => {
                        if th.tx.send(w[1..].join(" ")).is_err() {
                            "bad-op thread gone".into()
                        } else {
                            match th.rx.recv_timeout(OP_TIMEOUT) {
                                Ok(s) if s == "exiting" => {
                                    // wait until TLS destructors (Sender::drop) have run
                                    let j = th.join.take();
                                    threads.remove(&k);
                                    match j.map(|j| j.join()) {
                                        Some(Ok(()))
                                            if !PROBE_PANICKED
                                                .load(std::sync::atomic::Ordering::SeqCst) =>
                                        {
                                            "ok".into()
                                        }
                                        _ => "panic".into(),
                                    }
                                }
                                Ok(s) => s,
                                Err(_) => "timeout".into(),
                            }
                        }
                    }
                }
            }
        };
        let res = if OFF {
            let created = thread_counter().saturating_sub(threads_before + 1 + own_threads);
            if created > 0 {
                format!("{} [the call created {} thread(s)]", res, created)
            } else {
                res
            }
        } else {
            res
        };
        let dead = res == "timeout";
        let res = if times {
            let t_after = (mono0.elapsed().as_nanos(), std::time::SystemTime::now().duration_since(std::time::UNIX_EPOCH).unwrap().as_nanos());
            format!("{} @{}:{}:{}:{}", res, t_before.0, t_after.0, t_before.1, t_after.1)
        } else {
            res
        };
        emit(res);
        if dead {
            break;
        }
    }
    emit(format!("end closures={}", *CLOSURE_CALLS.lock().unwrap()));
    std::process::exit(0);
}

// ------------------------------------------------------------------------------ parent mode

fn main() {
    let args: Vec<String> = std::env::args().collect();
    if args.iter().any(|a| a == "--one") {
        run_case();
        return;
    }
    let exe = std::env::current_exe().unwrap();
    let mut input = String::new();
    std::io::stdin().read_to_string(&mut input).unwrap();
    let mut cases: Vec<(String, Vec<String>)> = vec![];
    for line in input.lines() {
        if line.starts_with("mode ") {
            continue;
        }
        if let Some(id) = line.strip_prefix("case ") {
            cases.push((id.to_string(), vec![]));
        } else if let Some(c) = cases.last_mut() {
            c.1.push(line.to_string());
        }
    }
    let stdout = std::io::stdout();
    let mut out = std::io::BufWriter::new(stdout.lock());
    for (_id, lines) in cases {
        let mut child = Command::new(&exe)
            .arg("--one")
            .stdin(Stdio::piped())
            .stdout(Stdio::piped())
            .stderr(Stdio::null())
            .spawn()
            .unwrap();
        {
            let mut si = child.stdin.take().unwrap();
            let _ = si.write_all((lines.join("\n") + "\n").as_bytes());
        }
        let mut so = String::new();
        child.stdout.take().unwrap().read_to_string(&mut so).unwrap();
        let _ = child.wait();
        let got: Vec<&str> = so.lines().collect();
        writeln!(out, "case").unwrap();
        for i in 0..lines.len() {
            match got.get(i) {
                Some(l) if !l.starts_with("end ") => writeln!(out, "{}", l).unwrap(),
                _ => writeln!(out, "<dead>").unwrap(),
            }
        }
    }
    out.flush().unwrap();
}
