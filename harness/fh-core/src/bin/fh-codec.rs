//! Correspondence harness, codec tier: calls the real functions of `collector/id.rs`.
use std::panic::catch_unwind;
use std::str::FromStr;

use fastrace::prelude::*;
use fh_core::*;

fn show_ctx(c: Option<SpanContext>) -> String {
    match c {
        None => "none".into(),
        Some(c) => format!("some {:x} {:x} {}", c.trace_id.0, c.span_id.0, c.sampled as u8),
    }
}

fn step(line: &str) -> String {
    let w: Vec<&str> = line.split_whitespace().collect();
    let r = catch_unwind(|| match w.as_slice() {
        ["enc", t, s, b] => {
            let (Ok(t), Ok(s)) = (u128::from_str_radix(t, 16), u64::from_str_radix(s, 16)) else {
                return "bad-op".to_string();
            };
            SpanContext::new(TraceId(t), SpanId(s)).sampled(*b == "1").encode_w3c_traceparent()
        }
        ["dec", h] => match str_of_hex(h) {
            Some(s) => show_ctx(SpanContext::decode_w3c_traceparent(&s)),
            None => "bad-op".into(),
        },
        ["tid_display", t] => match u128::from_str_radix(t, 16) {
            Ok(t) => {
                // Display and serde must agree; serde output is a JSON string of the same text
                let d = TraceId(t).to_string();
                let j = serde_json::to_string(&TraceId(t)).unwrap();
                if j == format!("\"{}\"", d) { d } else { format!("serde-mismatch {} {}", d, j) }
            }
            Err(_) => "bad-op".into(),
        },
        ["sid_display", t] => match u64::from_str_radix(t, 16) {
            Ok(t) => {
                let d = SpanId(t).to_string();
                let j = serde_json::to_string(&SpanId(t)).unwrap();
                if j == format!("\"{}\"", d) { d } else { format!("serde-mismatch {} {}", d, j) }
            }
            Err(_) => "bad-op".into(),
        },
        ["tid_parse", h] => match str_of_hex(h) {
            Some(s) => {
                let a = TraceId::from_str(&s).ok().map(|t| t.0);
                let b = serde_json::from_str::<TraceId>(&serde_json::to_string(&s).unwrap())
                    .ok()
                    .map(|t| t.0);
                if a != b {
                    return format!("serde-mismatch {:?} {:?}", a, b);
                }
                // the same text handed over as an owned string (`from_value`) and as a transient one (`from_reader`):
                // deserialisation must not depend on how the deserializer lends the string
                let c = serde_json::from_value::<TraceId>(serde_json::Value::String(s.clone())).ok().map(|t| t.0);
                let d = serde_json::from_reader::<_, TraceId>(serde_json::to_string(&s).unwrap().as_bytes()).ok().map(|t| t.0);
                if a != c || a != d {
                    return format!("serde-mismatch from_str={:?} from_value={:?} from_reader={:?}", a, c, d);
                }
                match a { Some(v) => format!("ok {:x}", v), None => "err".into() }
            }
            None => "bad-op".into(),
        },
        ["sid_parse", h] => match str_of_hex(h) {
            Some(s) => {
                let a = SpanId::from_str(&s).ok().map(|t| t.0);
                let b = serde_json::from_str::<SpanId>(&serde_json::to_string(&s).unwrap())
                    .ok()
                    .map(|t| t.0);
                if a != b {
                    return format!("serde-mismatch {:?} {:?}", a, b);
                }
                // the same text handed over as an owned string (`from_value`) and as a transient one (`from_reader`):
                // deserialisation must not depend on how the deserializer lends the string
                let c = serde_json::from_value::<SpanId>(serde_json::Value::String(s.clone())).ok().map(|t| t.0);
                let d = serde_json::from_reader::<_, SpanId>(serde_json::to_string(&s).unwrap().as_bytes()).ok().map(|t| t.0);
                if a != c || a != d {
                    return format!("serde-mismatch from_str={:?} from_value={:?} from_reader={:?}", a, c, d);
                }
                match a { Some(v) => format!("ok {:x}", v), None => "err".into() }
            }
            None => "bad-op".into(),
        },
        _ => "bad-op".into(),
    });
    r.unwrap_or_else(|_| "panic".to_string())
}

fn main() {
    std::panic::set_hook(Box::new(|_| {}));
    line_loop(step);
}
