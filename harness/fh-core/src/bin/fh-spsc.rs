//! Correspondence harness, channel tier: drives the real `fastrace::util::spsc` with small
//! capacities; consumer pops can be placed before any individual ring push of a
//! `send` / `force_send` / `Sender::drop` through the `SenderBeforePush` hook point.
use std::sync::Arc;
use std::sync::Mutex;

use fastrace::util::spsc;
use fastrace::verif;
use fh_core::*;

struct St {
    tx: Option<spsc::Sender<u32>>,
    rx: Option<spsc::Receiver<u32>>,
}

static RX: Mutex<Option<spsc::Receiver<u32>>> = Mutex::new(None);
static PLAN: Mutex<Vec<usize>> = Mutex::new(Vec::new());
static POPPED: Mutex<Vec<u32>> = Mutex::new(Vec::new());
static ATTEMPT: Mutex<usize> = Mutex::new(0);

fn parse_plan(s: &str) -> Option<Vec<usize>> {
    if s == "_" {
        return Some(vec![]);
    }
    s.split(',').map(|x| x.parse().ok()).collect()
}

fn arm(plan: Vec<usize>) {
    *PLAN.lock().unwrap() = plan;
    *ATTEMPT.lock().unwrap() = 0;
    POPPED.lock().unwrap().clear();
}

fn popped() -> String {
    let p = POPPED.lock().unwrap();
    if p.is_empty() {
        "-".into()
    } else {
        p.iter().map(|x| x.to_string()).collect::<Vec<_>>().join(",")
    }
}

fn main() {
    std::panic::set_hook(Box::new(|_| {}));
    verif::set_hook(Some(Arc::new(|p: verif::Point| {
        if p != verif::Point::SenderBeforePush {
            return;
        }
        let i = {
            let mut a = ATTEMPT.lock().unwrap();
            *a += 1;
            *a - 1
        };
        let n = PLAN.lock().unwrap().get(i).copied().unwrap_or(0);
        let mut rx = RX.lock().unwrap();
        if let Some(rx) = rx.as_mut() {
            for _ in 0..n {
                if let Ok(Some(v)) = rx.try_recv() {
                    POPPED.lock().unwrap().push(v);
                }
            }
        }
    })));
    let mut st = St { tx: None, rx: None };
    line_loop(|line| {
        let w: Vec<&str> = line.split_whitespace().collect();
        let r = std::panic::catch_unwind(std::panic::AssertUnwindSafe(|| match w.as_slice() {
            ["case", _] => {
                st.tx = None;
                *RX.lock().unwrap() = None;
                "case".to_string()
            }
            ["new", cap] => {
                let (tx, rx) = spsc::bounded::<u32>(cap.parse().unwrap());
                st.tx = Some(tx);
                st.rx = None;
                *RX.lock().unwrap() = Some(rx);
                "ok".into()
            }
            ["send", v, plan] => {
                let (Some(tx), Some(plan)) = (st.tx.as_mut(), parse_plan(plan)) else {
                    return "bad-op".into();
                };
                arm(plan);
                let r = tx.send(v.parse().unwrap());
                format!("{} pops={}", if r.is_ok() { "ok" } else { "full" }, popped())
            }
            ["force", v, plan] => {
                let (Some(tx), Some(plan)) = (st.tx.as_mut(), parse_plan(plan)) else {
                    return "bad-op".into();
                };
                arm(plan);
                tx.force_send(v.parse().unwrap());
                format!("ok pops={}", popped())
            }
            ["drop", plan] => {
                let (Some(tx), Some(plan)) = (st.tx.take(), parse_plan(plan)) else {
                    return "bad-op".into();
                };
                arm(plan);
                drop(tx);
                format!("ok pops={}", popped())
            }
            ["pop"] => {
                arm(vec![]);
                let mut rx = RX.lock().unwrap();
                match rx.as_mut() {
                    None => "bad-op".into(),
                    Some(rx) => match rx.try_recv() {
                        Ok(Some(v)) => format!("some {}", v),
                        Ok(None) => "empty".into(),
                        Err(_) => "closed".into(),
                    },
                }
            }
            _ => "bad-op".into(),
        }));
        r.unwrap_or_else(|_| "panic".into())
    });
}
